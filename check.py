#!/usr/bin/env python3-vt
"""Entry point: check.py <Cxx> [--tier quick|thorough] | replay <file> | selftest | list"""
import argparse
import os
import sys

sys.path.insert(0, os.path.dirname(os.path.abspath(__file__)))
sys.setrecursionlimit(10000)


def main():
    ap = argparse.ArgumentParser()
    ap.add_argument("what")
    ap.add_argument("arg", nargs="?")
    ap.add_argument("--tier", default=os.environ.get("VERIF_TIER", "quick"), choices=["quick", "thorough"])
    ap.add_argument("--procs", type=int, default=None)
    ap.add_argument("--only", default=None, help="restrict to harness ids with this prefix (debugging; evidence is partial)")
    a = ap.parse_args()
    seed = int(os.environ.get("VERIF_SEED", "0") or 0)
    from symex import runner
    if a.what == "replay":
        out = runner.replay_file(a.arg)
        if out is None:
            print("replay: no failure reproduced")
            return 0
        print("replay: REPRODUCED: " + out)
        return 1
    if a.what == "list":
        runner.load_checks()
        for hid, h in sorted(runner.REG.items()):
            print(hid, h.props, len(h.jobs(a.tier, seed)), "jobs", "-", h.desc)
        return 0
    if a.what == "selftest":
        from symex import selftest
        return selftest.main()
    if a.only:
        runner.load_checks()
        for hid in list(runner.REG):
            if not hid.startswith(a.only):
                del runner.REG[hid]
    return runner.run_check(a.what, a.tier, seed, a.procs)


if __name__ == "__main__":
    sys.exit(main())
