"""IEEE-754 binary64 proxies (FP mode, DESIGN 2.3) and string tokens.

``SymFP`` wraps a z3 Float64 term; arithmetic is round-to-nearest-even as in
CPython; comparisons follow IEEE (NaN compares false, ``!=`` true).  ``fp_int``
models ``int(x)`` (truncation toward zero; ValueError on NaN, OverflowError on
infinities), ``fp_round`` models ``round(x)`` (half to even).  ``Tok`` models the
text produced by ``str()`` of a symbolic number and by ``+`` on strings as a
sequence of literal pieces and numeric tokens.
"""
import z3

from . import core
from .core import Space, SymBool, SymInt, SymReal

F64 = z3.Float64()
RNE = z3.RNE()
RTZ = z3.RTZ()


def fpval(x):
    if isinstance(x, SymFP):
        return x.t
    if isinstance(x, bool):
        return z3.FPVal(float(int(x)), F64)
    if isinstance(x, (int, float)):
        return z3.FPVal(float(x), F64)
    if isinstance(x, SymFPInt):
        return x.t
    return None


def _bin(fn):
    def op(self, other):
        b = fpval(other)
        if b is None:
            return NotImplemented
        return SymFP(fn(self.t, b))

    def rop(self, other):
        b = fpval(other)
        if b is None:
            return NotImplemented
        return SymFP(fn(b, self.t))
    return op, rop


def _cmp(fn):
    def op(self, other):
        b = fpval(other)
        if b is None:
            return NotImplemented
        return SymBool(fn(self.t, b))
    return op


class SymFP:
    __slots__ = ("t",)
    __class__ = property(lambda self: float)

    def __init__(self, t):
        self.t = t

    __add__, __radd__ = _bin(lambda a, b: z3.fpAdd(RNE, a, b))
    __sub__, __rsub__ = _bin(lambda a, b: z3.fpSub(RNE, a, b))
    __mul__, __rmul__ = _bin(lambda a, b: z3.fpMul(RNE, a, b))
    __lt__ = _cmp(z3.fpLT)
    __le__ = _cmp(z3.fpLEQ)
    __gt__ = _cmp(z3.fpGT)
    __ge__ = _cmp(z3.fpGEQ)
    __eq__ = _cmp(z3.fpEQ)
    __ne__ = _cmp(lambda a, b: z3.Not(z3.fpEQ(a, b)))

    def __truediv__(self, other):
        b = fpval(other)
        if b is None:
            return NotImplemented
        if bool(SymBool(z3.fpIsZero(b))):
            raise ZeroDivisionError("float division by zero")
        return SymFP(z3.fpDiv(RNE, self.t, b))

    def __rtruediv__(self, other):
        b = fpval(other)
        if b is None:
            return NotImplemented
        if bool(SymBool(z3.fpIsZero(self.t))):
            raise ZeroDivisionError("float division by zero")
        return SymFP(z3.fpDiv(RNE, b, self.t))

    def __neg__(self):
        return SymFP(z3.fpNeg(self.t))

    def __abs__(self):
        return SymFP(z3.fpAbs(self.t))

    def __bool__(self):
        return bool(SymBool(z3.Not(z3.fpIsZero(self.t))))

    def __hash__(self):
        raise TypeError("hash of a symbolic float")

    def __format__(self, spec):
        return "<symfp>"

    def __repr__(self):
        return "<symfp>"

    __str__ = __repr__

    def __deepcopy__(self, memo):
        return self


class SymFPInt:
    """result of int()/round() on a symbolic double: an integral Float64 term"""
    __slots__ = ("t",)
    __class__ = property(lambda self: int)

    def __init__(self, t):
        self.t = t

    def __deepcopy__(self, memo):
        return self


def _nonfinite_guard(x, what):
    if bool(SymBool(z3.fpIsNaN(x.t))):
        raise ValueError("cannot convert float NaN to integer")
    if bool(SymBool(z3.fpIsInf(x.t))):
        raise OverflowError("cannot convert float infinity to integer")


def fp_int(x, *a):
    """builtin int for the code under test"""
    if isinstance(x, SymFP):
        _nonfinite_guard(x, "int")
        return SymFPInt(z3.fpRoundToIntegral(RTZ, x.t))
    if isinstance(x, (SymFPInt, SymInt)):
        return x
    if isinstance(x, NumTok):
        return x.value
    return int(x, *a)


def fp_round(x, nd=None):
    if isinstance(x, SymFP):
        if nd is not None:
            raise NotImplementedError("round(x, nd) in FP mode")
        _nonfinite_guard(x, "round")
        return SymFPInt(z3.fpRoundToIntegral(RNE, x.t))
    if isinstance(x, (SymFPInt, SymInt)):
        return x
    return round(x) if nd is None else round(x, nd)


# ---------------------------------------------------------------------- text tokens
class NumTok:
    """decimal rendering of a symbolic integer (SymInt, SymFPInt) or a concrete int"""

    def __init__(self, value):
        self.value = value

    def __repr__(self):
        return "<num>"


class Tok:
    """a string under construction: list of literal str pieces and NumTok"""

    def __init__(self, parts):
        self.parts = []
        for p in parts:
            if isinstance(p, str) and self.parts and isinstance(self.parts[-1], str):
                self.parts[-1] += p
            elif p != "":
                self.parts.append(p)

    def __add__(self, o):
        if isinstance(o, Tok):
            return Tok(self.parts + o.parts)
        if isinstance(o, str):
            return Tok(self.parts + [o])
        return NotImplemented

    def __radd__(self, o):
        if isinstance(o, str):
            return Tok([o] + self.parts)
        return NotImplemented

    def __repr__(self):
        return "".join(p if isinstance(p, str) else "<num>" for p in self.parts)

    __str__ = __repr__

    def __deepcopy__(self, memo):
        return self

    def __eq__(self, o):
        """comparison with a literal string: a single numeric token equals a decimal literal iff its value does"""
        if isinstance(o, Tok):
            return self is o
        if isinstance(o, str):
            if len(self.parts) == 1 and isinstance(self.parts[0], NumTok) and o.lstrip("-").isdigit() and str(int(o)) == o:
                v = self.parts[0].value
                if isinstance(v, SymFPInt):
                    return bool(SymBool(z3.fpEQ(v.t, z3.FPVal(float(int(o)), F64))))
                if isinstance(v, SymInt):
                    return bool(v == int(o))
                return str(v) == o
            if all(isinstance(p, str) for p in self.parts):
                return "".join(self.parts) == o
            return False
        return NotImplemented

    def __ne__(self, o):
        r = self.__eq__(o)
        return r if r is NotImplemented else not r

    __hash__ = None


def tok_str(x=""):
    """builtin str for the code under test"""
    if isinstance(x, (SymInt, SymFPInt)):
        return Tok([NumTok(x)])
    if isinstance(x, (Tok,)):
        return x
    return str(x)


def fp(name, sp=None):
    """an arbitrary double (any of the 2^64 bit patterns)"""
    sp = sp or Space.cur
    if sp.mode == "native":
        v = sp.assignment.get(name, 0.0)
        return float(v) if not isinstance(v, float) else v
    t = z3.FP(name, F64)
    sp.inputs[name] = t
    return SymFP(t)
