"""Cross-engine check (DESIGN 2.9): the scalar node lemmas are also handed to CrossHair (an independent symbolic
executor for Python over z3) as PEP-316 contracts on the real classes of /repo/tad.py.  A CrossHair counterexample where
this engine proved the lemma (or the converse) is an engine disagreement."""
import os
import re
import shutil
import subprocess
import sys
import tempfile

from . import repo

TEMPLATE = '''
import sys
sys.path.insert(0, %(repo)r)
from tad import PlayerOne, PlayerTwo, ProbabilisticNode


class S:
    def __init__(self, rp=0.0, er=0.0):
        self.reach_probability = rp
        self.expected_rewards = er
        self.expected_rewards_min_reach = 0.0
        self.expected_reach_min_rewards = 0.0


def p1_reach(a: float, b: float, c: float) -> float:
    """
    pre: 0 <= a <= 1 and 0 <= b <= 1 and 0 <= c <= 1
    post: __return__ == max(a, b, c)
    """
    node = PlayerOne("Player 1", 0, 0, [("x", 1), ("y", 2), ("z", 3)], 4)
    return node.value_iteration_reach([node, S(a), S(b), S(c)])


def p2_reach(a: float, b: float, c: float) -> float:
    """
    pre: 0 <= a <= 1 and 0 <= b <= 1 and 0 <= c <= 1
    post: __return__ == min(a, b, c)
    """
    node = PlayerTwo("Player 2", 0, 0, [("x", 1), ("y", 2), ("z", 3)], 4)
    return node.value_iteration_reach([node, S(a), S(b), S(c)])


def p1_rew(a: float, b: float, r: float) -> float:
    """
    pre: 0 <= a <= 100 and 0 <= b <= 100 and 0 <= r <= 100
    post: __return__ == r + max(a, b)
    """
    node = PlayerOne("Player 1", 0, r, [("x", 1), ("y", 2)], 3)
    return node.value_iteration_rewards([node, S(0.0, a), S(0.0, b)])[0]


def p2_rew(a: float, b: float, r: float) -> float:
    """
    pre: 0 <= a <= 100 and 0 <= b <= 100 and 0 <= r <= 100
    post: __return__ == r + min(a, b)
    """
    node = PlayerTwo("Player 2", 0, r, [("x", 1), ("y", 2)], 3)
    return node.value_iteration_rewards([node, S(0.5, a), S(0.5, b)])[0]


def p1_self_loop(a: float, b: float) -> float:
    """
    pre: 0 <= a <= 1 and 0 <= b <= 1
    post: __return__ == max(a, b)
    """
    node = PlayerOne("Player 1", 0, 0, [("x", 0), ("y", 1)], 2)
    node.reach_probability = a
    return node.value_iteration_reach([node, S(b)])
'''


def run(per_condition_timeout=60):
    """returns dict(confirmed=[...], counterexamples=[...], other=[...]) or None if CrossHair is unavailable"""
    try:
        import crosshair  # noqa: F401
    except Exception:
        return None
    d = tempfile.mkdtemp(prefix="xcheck_")
    try:
        fn = os.path.join(d, "lemmas.py")
        with open(fn, "w") as f:
            f.write(TEMPLATE % dict(repo=repo.REPO))
        r = subprocess.run([sys.executable, "-m", "crosshair", "check", fn, "--per_condition_timeout", str(per_condition_timeout),
                            "--report_all"], capture_output=True, text=True, timeout=per_condition_timeout * 8 + 60)
        out = dict(confirmed=[], counterexamples=[], other=[])
        lines = open(fn).read().split("\n")
        for line in (r.stdout + r.stderr).splitlines():
            m = re.match(r".*lemmas\.py:(\d+): (\w+): (.*)", line)
            if not m:
                continue
            ln = int(m.group(1))
            name = next((re.match(r"def (\w+)", lines[k]).group(1) for k in range(ln - 1, -1, -1) if lines[k].startswith("def ")), "?")
            msg = m.group(3)
            if "Confirmed over all paths" in msg:
                out["confirmed"].append(name)
            elif m.group(2) == "error":
                out["counterexamples"].append("%s: %s" % (name, msg))
            else:
                out["other"].append("%s: %s" % (name, msg))
        return out
    finally:
        shutil.rmtree(d, ignore_errors=True)
