"""Harness registry, parallel job runner, replay, known findings, evidence."""
import json
import multiprocessing as mp
import os
import sys
import time

from . import core, repo

VERIF = os.path.dirname(os.path.dirname(os.path.abspath(__file__)))
EVIDENCE_DIR = os.environ.get("VERIF_EVIDENCE_DIR") or os.path.join(VERIF, "evidence")
REPLAY_DIR = os.path.join(EVIDENCE_DIR, "replays")
KNOWN = os.path.join(VERIF, "known_findings.json")

REG = {}
LEVELS = {"C16": "other"}


class Harness:
    def __init__(self, hid, props, fn, jobs, expected=(), covers=(), bounds="", stubs=(),
                 assumes=(), desc="", native_only=False, sentinel=False):
        self.hid = hid
        self.props = list(props)
        self.fn = fn
        self.jobs = jobs              # jobs(tier, seed) -> list of params dicts
        self.expected = tuple(expected)
        self.covers = list(covers)    # coverage tags that must be witnessed (union over jobs)
        self.bounds = bounds
        self.stubs = list(stubs)
        self.assumes = list(assumes)
        self.desc = desc
        self.sentinel = sentinel      # concrete sentinel run, not a solver verdict


def harness(hid, props, jobs=None, **kw):
    def deco(fn):
        REG[hid] = Harness(hid, props, fn, jobs or (lambda tier, seed: [{}]), **kw)
        return fn
    return deco


def load_checks():
    import importlib
    import pkgutil
    import checks
    for m in pkgutil.iter_modules(checks.__path__):
        importlib.import_module("checks." + m.name)


# ------------------------------------------------------------------ worker
def _job_opts(params):
    opts = dict(max_paths=200000, timeout_s=1800, qtimeout_ms=120000, max_violations=5)
    for k in list(opts):
        if "_" + k in params:
            opts[k] = params["_" + k]
    cap = os.environ.get("VERIF_MAX_JOB_S")      # used when evaluating seeded changes: a diverging job need not run to its limit
    if cap:
        opts["timeout_s"] = min(opts["timeout_s"], int(cap))
    return opts


def run_job(job):
    hid, params = job
    h = REG[hid]
    opts = _job_opts(params)
    p = {k: v for k, v in params.items() if not k.startswith("_")}
    tracer = repo.FuncTrace()
    count = [0]

    def fn(sp):
        count[0] += 1
        if count[0] <= 3 and not os.environ.get("VERIF_NOTRACE"):
            with tracer:
                return h.fn(sp, **p)
        return h.fn(sp, **p)

    t0 = time.time()
    try:
        st = core.explore(fn, expected=h.expected, **opts)
    except BaseException as e:   # harness failure: never a verdict
        import traceback
        return dict(hid=hid, params=params, error="%s: %s\n%s" % (type(e).__name__, e, traceback.format_exc()),
                    wall_s=time.time() - t0)
    # native replay of every counterexample (DESIGN 2.6)
    for v in st["violations"]:
        v["reproduced"] = None
        v["native"] = None
        if v.get("assignment") is None:
            continue
        try:
            out = core.run_native(lambda sp: h.fn(sp, **p), v["assignment"], expected=h.expected)
        except BaseException as e:
            out = None
            v["native_error"] = "%s: %s" % (type(e).__name__, e)
        v["native"] = out
        v["reproduced"] = out is not None
    st["hid"] = hid
    st["params"] = params
    st["functions"] = sorted(tracer.seen)
    st["wall_s"] = time.time() - t0
    return st


def replay_file(path):
    """Native re-execution of one recorded counterexample. Returns failure text or None."""
    with open(path) as f:
        rec = json.load(f)
    load_checks()
    h = REG[rec["harness"]]
    p = {k: v for k, v in rec["params"].items() if not k.startswith("_")}
    return core.run_native(lambda sp: h.fn(sp, **p), rec["assignment"], expected=h.expected)


# ------------------------------------------------------------------ findings
def load_known():
    if not os.path.exists(KNOWN):
        return []
    with open(KNOWN) as f:
        data = json.load(f)
    return [k for k in data.get("open", [])]


def match_known(known, prop, hid, params, viol):
    for k in known:
        if k.get("harness") != hid:
            continue
        if prop not in k.get("properties", [k.get("property")]):
            continue
        if any(params.get(a) != b for a, b in k.get("params", {}).items()):
            continue
        if k.get("msg_contains") and k["msg_contains"] not in (viol.get("msg") or ""):
            continue
        return k
    return None


# ------------------------------------------------------------------ driver
def run_check(prop, tier, seed, procs=None):
    load_checks()
    t0 = time.time()
    hs = [h for h in REG.values() if prop in h.props]
    if not hs:
        print("no harness serves %s" % prop)
        return 2
    jobs = []
    for h in hs:
        for params in h.jobs(tier, seed):
            if "_props" in params and prop not in params["_props"]:
                continue          # a job that only belongs to some of the harness's properties
            jobs.append((h.hid, params))
    jobs.sort(key=lambda j: -j[1].get("_cost", 1))
    procs = procs or int(os.environ.get("VERIF_PROCS", "16"))
    procs = max(1, min(procs, len(jobs)))
    results = []
    if procs == 1:
        for j in jobs:
            results.append(run_job(j))
    else:
        ctx = mp.get_context("fork")
        with ctx.Pool(procs, maxtasksperchild=50) as pool:
            for r in pool.imap_unordered(run_job, jobs, chunksize=1):
                results.append(r)
    results.sort(key=lambda r: (r["hid"], json.dumps(r["params"], sort_keys=True, default=str)))
    return report(prop, tier, seed, hs, results, time.time() - t0)


def report(prop, tier, seed, hs, results, wall):
    known = load_known()
    os.makedirs(REPLAY_DIR, exist_ok=True)
    # drop stale replay files of this property
    for f in os.listdir(REPLAY_DIR):
        if f.startswith(prop + "-"):
            os.remove(os.path.join(REPLAY_DIR, f))
    problems = []          # inconclusive reasons
    viol_lines = []
    known_lines = []
    n_viol = 0
    per_h = {}
    covers = {}
    functions = set()
    samples = []
    tot = dict(paths=0, completed=0, aborted=0, cut=0, queries=0, solver_s=0.0, unknowns=0,
               obligations=0, discharged=0, decisions=0)
    exhaustive = True
    nrep = 0
    for r in results:
        hid = r["hid"]
        ph = per_h.setdefault(hid, dict(jobs=0, paths=0, completed=0, aborted=0, cut=0, queries=0,
                                        solver_s=0.0, obligations=0, discharged=0, wall_s=0.0,
                                        unknowns=0, violations=0))
        ph["jobs"] += 1
        ph["wall_s"] += r.get("wall_s", 0)
        if "error" in r:
            problems.append("harness error in %s %s: %s" % (hid, r["params"], r["error"].splitlines()[0]))
            sys.stderr.write(r["error"] + "\n")
            continue
        for k in tot:
            tot[k] += r[k]
            if k in ph:
                ph[k] += r[k]
        for c, n in r["covers"].items():
            covers[(hid, c)] = covers.get((hid, c), 0) + n
        functions.update(r["functions"])
        if not r["exhausted"] and not r["violations"]:
            exhaustive = False
            problems.append("%s %s: decision tree not exhausted (%d paths, %.0fs)" %
                            (hid, _short(r["params"]), r["paths"], r["wall_s"]))
        if r["unknowns"]:
            problems.append("%s %s: %d solver unknown(s)" % (hid, _short(r["params"]), r["unknowns"]))
        for m in r["inconclusive"]:
            problems.append("%s %s: %s" % (hid, _short(r["params"]), m))
        if r["completed"] == 0 and not r["violations"]:
            problems.append("%s %s: vacuous (no path completed)" % (hid, _short(r["params"])))
        if r["obligations"] == 0 and not r["violations"] and not REG[hid].sentinel:
            problems.append("%s %s: vacuous (no obligation reached)" % (hid, _short(r["params"])))
        for s in r["samples"][:1]:
            if sum(1 for x in samples if x["harness"] == hid) < 2:
                samples.append(dict(harness=hid, params=_pub(r["params"]), **s))
        for v in r["violations"]:
            ph["violations"] += 1
            if not v.get("reproduced"):
                problems.append("%s %s: counterexample did not reproduce natively: %s (native: %s)" %
                                (hid, _short(r["params"]), v["msg"], v.get("native_error")))
                continue
            k = match_known(known, prop, hid, r["params"], v)
            if k is not None:
                line = "KNOWN-FINDING: property=%s %s" % (prop, k["what"])
                if line not in known_lines:
                    known_lines.append(line)
                continue
            n_viol += 1
            if nrep < 20:
                nrep += 1
                path = os.path.join(REPLAY_DIR, "%s-%s-%d.json" % (prop, hid, nrep))
                with open(path, "w") as f:
                    json.dump(dict(property=prop, harness=hid, params=r["params"], assignment=v["assignment"],
                                   msg=v["msg"], native=v["native"]), f, indent=1, default=str)
                viol_lines.append("VIOLATION property=%s replay=%s" % (prop, path))
                sys.stderr.write("  %s %s: %s | native: %s | %s\n" % (hid, _short(r["params"]), v["msg"], v["native"],
                                                                      _short(v["assignment"], 300)))
    # required coverage predicates
    missing = []
    for h in hs:
        for c in h.covers:
            if not covers.get((h.hid, c)):
                missing.append("%s:%s" % (h.hid, c))
    if missing and not n_viol:
        problems.append("coverage predicates not witnessed: " + ", ".join(missing))
    status = 1 if n_viol else (2 if problems else 0)
    solver_h = [h for h in hs if not h.sentinel]
    ev = dict(
        property_id=prop, tier=tier, seed=seed, level=LEVELS.get(prop, "model_checking"),
        coverage=dict(
            evaluations=tot["paths"],
            distinct_nontrivial=tot["completed"],
            explanation=("bounded symbolic execution of the real functions of /repo on proxy values; each harness explores its whole "
                         "decision tree and every assertion is a z3 query; counterexamples are replayed natively before being reported; "
                         "per-harness bounds, stubs and counts below"),
            rule=("one evaluation = one path of the decision tree of a harness (real functions of /repo executed on "
                  "symbolic values; every path has a distinct decision trace). Non-trivial = the path was feasible, "
                  "ran the code under test to completion and reached at least one solver obligation; aborted "
                  "(infeasible) and cut paths are not counted."),
            samples=samples[:16],
            paths_symbolic_harnesses=sum(d["paths"] for hid, d in per_h.items() if not REG[hid].sentinel),
            paths_concrete_sentinels=sum(d["paths"] for hid, d in per_h.items() if REG[hid].sentinel),
            exhaustive=bool(exhaustive and not problems),
            obligations=tot["obligations"], discharged=tot["discharged"],
            solver_queries=tot["queries"], solver_s=round(tot["solver_s"], 3), solver_unknowns=tot["unknowns"],
            paths_aborted=tot["aborted"], paths_cut=tot["cut"], decisions=tot["decisions"],
            jobs=len(results),
            functions_encoded=sorted(functions),
            harnesses={hid: dict(desc=REG[hid].desc, bounds=REG[hid].bounds, stubs=REG[hid].stubs,
                                 sentinel=REG[hid].sentinel,
                                 **{k: (round(v, 3) if isinstance(v, float) else v) for k, v in d.items()})
                       for hid, d in per_h.items()},
            coverage_predicates={"%s:%s" % k: v for k, v in sorted(covers.items())},
            known_findings=known_lines,
            inconclusive=problems[:50],
            engine="z3 %s via /verif/symex (proxy-based symbolic execution)" % _z3v(),
            repo=repo.REPO,
        ),
        assumptions=sorted({a for h in hs for a in h.assumes} | {
            "floats are modelled as exact reals unless the harness says FP mode",
            "z3 is sound; the proxy layer (symex/core.py) builds the right terms (validated by selftest)"}),
        wall_s=round(wall, 3), violations=n_viol)
    os.makedirs(EVIDENCE_DIR, exist_ok=True)
    with open(os.path.join(EVIDENCE_DIR, prop + ".json"), "w") as f:
        json.dump(ev, f, indent=1, default=str)
    for l in known_lines:
        print(l)
    for l in viol_lines:
        print(l)
    for p in problems[:30]:
        print("INCONCLUSIVE: " + p)
    print("%s tier=%s jobs=%d paths=%d completed=%d obligations=%d/%d queries=%d solver=%.1fs wall=%.1fs -> %s" % (
        prop, tier, len(results), tot["paths"], tot["completed"], tot["discharged"], tot["obligations"],
        tot["queries"], tot["solver_s"], wall, {0: "HOLDS (within bounds)", 1: "VIOLATED", 2: "INCONCLUSIVE"}[status]))
    return status


def _z3v():
    import z3
    return z3.get_version_string()


def _pub(params):
    return {k: v for k, v in params.items() if not k.startswith("_")}


def _short(x, n=160):
    s = json.dumps(_pub(x) if isinstance(x, dict) else x, sort_keys=True, default=str)
    return s if len(s) <= n else s[:n] + "..."
