"""Loading the repository's modules from its current working tree.

Every run compiles the sources found under $VERIF_REPO (default /repo) into
fresh module namespaces; nothing is cached between runs and no source
transformation is applied.  ``overrides`` are names placed in the module's
globals before its code runs: module globals shadow builtins, which is how
environment stubs (``range``, ``open``, ``int``, ``str``, ``random``, ``math``)
are put in without editing any file of the repository.
"""
import logging
import os
import sys
import types

REPO = os.environ.get("VERIF_REPO", "/repo")

logging.disable(logging.CRITICAL)   # the repository logs through the root logger


def source(name):
    with open(os.path.join(REPO, name + ".py")) as f:
        return f.read()


def load(name, overrides=None, imports=None, alias=None):
    """Compile /repo/<name>.py into a new module object.

    imports: {module name: module object} made visible to the ``import``
    statements of the loaded source (via sys.modules for the duration)."""
    path = os.path.join(REPO, name + ".py")
    mod = types.ModuleType(alias or name)
    mod.__file__ = path
    if overrides:
        mod.__dict__.update(overrides)
    saved = {}
    for k, v in (imports or {}).items():
        saved[k] = sys.modules.get(k)
        sys.modules[k] = v
    try:
        code = compile(source(name), path, "exec")
        exec(code, mod.__dict__)
    finally:
        for k, v in saved.items():
            if v is None:
                sys.modules.pop(k, None)
            else:
                sys.modules[k] = v
    # names bound by `import x` inside the module win over overrides of the
    # same name given before execution; re-apply those the caller insists on
    return mod


_cache = {}


def std():
    """The plain (unstubbed) modules, loaded once per process."""
    if "std" not in _cache:
        rdfs = load("reverse_dfs")
        tad = load("tad", imports={"reverse_dfs": rdfs})
        cr = load("conditionalrewards", imports={"tad": tad, "reverse_dfs": rdfs})
        gen = load("roberta_generator")
        board = load("stochastic_game_from_roborta_board", imports={"roberta_generator": gen})
        _cache["std"] = types.SimpleNamespace(reverse_dfs=rdfs, tad=tad, cr=cr, gen=gen, board=board)
    return _cache["std"]


def repo_files():
    return [os.path.join(REPO, f) for f in
            ("tad.py", "reverse_dfs.py", "conditionalrewards.py", "roberta_generator.py",
             "stochastic_game_from_roborta_board.py")]


class FuncTrace:
    """Collects the names of repository functions executed (sys.setprofile)."""

    def __init__(self):
        self.seen = set()
        self.prefix = REPO.rstrip("/") + "/"

    def _prof(self, frame, event, arg):
        if event == "call":
            co = frame.f_code
            fn = co.co_filename
            if fn.startswith(self.prefix):
                self.seen.add("%s:%s" % (fn[len(self.prefix):], co.co_qualname if hasattr(co, "co_qualname") else co.co_name))

    def __enter__(self):
        sys.setprofile(self._prof)
        return self

    def __exit__(self, *a):
        sys.setprofile(None)
