"""Symbolic executor for duck-typed numeric Python code (DESIGN.md section 2).

The unmodified functions of /repo run on proxy values that carry z3 terms.
``bool()`` of a symbolic condition is the only decision point; the decision tree
is explored depth first by re-execution with a recorded prefix.  ``prove`` asks
z3 for a model of ``path and not cond``.

The same harness function also runs in *native* mode (``Space(mode='native')``):
value factories then return ordinary Python numbers taken from a recorded
assignment, the real code runs on them exactly as for a user, and ``prove``
evaluates natively.  That is the replay of a counterexample.
"""
import fractions
import time

import z3

Fraction = fractions.Fraction


class PathAbort(BaseException):
    """Control-flow signals of the engine; BaseException so that the code under
    test cannot swallow them with ``except Exception``/``except ValueError``."""


class Infeasible(PathAbort):
    pass


class PathCut(PathAbort):
    """A harness-imposed cut (sweep budget, last-sweep harness)."""


class BudgetExceeded(PathAbort):
    pass


class Violation(Exception):
    def __init__(self, msg, assignment=None, kind="assert"):
        super().__init__(msg)
        self.msg = msg
        self.assignment = assignment
        self.kind = kind


class Inconclusive(Exception):
    """Solver said unknown on an obligation."""


NATIVE_SLACK = 1e-9


def frac_of(val):
    """z3 numeric value -> Fraction (algebraic numbers are approximated)."""
    if z3.is_int_value(val):
        return Fraction(val.as_long())
    if z3.is_rational_value(val):
        return Fraction(val.numerator_as_long(), val.denominator_as_long())
    if z3.is_algebraic_value(val):
        a = val.approx(30)
        return Fraction(a.numerator_as_long(), a.denominator_as_long())
    raise TypeError("not a numeric value: %r" % (val,))


class Space:
    """One path of one harness run (symbolic) or one native replay."""
    cur = None

    def __init__(self, mode="sym", assignment=None, prefix=(), qtimeout_ms=20000, deadline=None):
        self.mode = mode
        self.assignment = assignment or {}
        self.solver = z3.Solver()
        self.solver.set("timeout", qtimeout_ms)
        self.prefix = list(prefix)
        self.trace = []
        self.n_checks = 0
        self.t_solver = 0.0
        self.unknowns = 0
        self.model = None
        self.deadline = deadline
        self.inputs = {}          # name -> z3 const (declared inputs, for assignments)
        self.inputs_holes = []    # holes fixed by free decisions (their equalities are trivially satisfiable)
        self.rounds = []          # round() instances on this path
        self.covers = set()
        self.notes = {}
        self.obligations = 0
        self.discharged = 0
        self.havoc = []
        self.fresh_n = 0
        self.slack = NATIVE_SLACK

    # ---------------------------------------------------------------- solver
    def check(self, *extra):
        if self.deadline and time.time() > self.deadline:
            raise BudgetExceeded()
        t = time.time()
        r = self.solver.check(*extra)
        self.t_solver += time.time() - t
        self.n_checks += 1
        if r == z3.unknown:
            self.unknowns += 1
        return r

    def _model(self):
        if self.model is None:
            r = self.check()
            if r == z3.unsat:
                raise Infeasible()
            if r == z3.unknown:
                raise Inconclusive("unknown while extending the path condition")
            self.model = self.solver.model()
        return self.model

    def add(self, *conds):
        """Add constraints without a feasibility check (definitions of fresh symbols)."""
        for c in conds:
            if isinstance(c, (list, tuple)):
                self.add(*c)
            else:
                self.solver.add(as_z3_bool(c))
        self.model = None

    def assume(self, cond):
        if isinstance(cond, bool):
            if not cond:
                raise Infeasible()
            return
        self.solver.add(as_z3_bool(cond))
        self.model = None
        self._model()

    def decide(self, cond):
        cond = z3.simplify(cond)
        if z3.is_true(cond):
            return True
        if z3.is_false(cond):
            return False
        k = len(self.trace)
        if k < len(self.prefix):
            v, pend = self.prefix[k]
            self.trace.append((v, pend))
            self.solver.add(cond if v else z3.Not(cond))
            self.model = None
            return v
        m = self._model()
        mv = m.eval(cond, model_completion=True)
        if z3.is_true(mv):
            rf = self.check(z3.Not(cond))
            self.trace.append((True, rf != z3.unsat))
            self.solver.add(cond)
            return True
        if z3.is_false(mv):
            rt = self.check(cond)
            if rt != z3.unsat:
                self.model = self.solver.model() if rt == z3.sat else None
                self.trace.append((True, True))
                self.solver.add(cond)
                if rt == z3.unknown:
                    # feasibility of this side not established: keep going, the
                    # unknown is counted and makes the run inconclusive
                    self.model = None
                return True
            self.trace.append((False, False))
            self.solver.add(z3.Not(cond))
            return False
        # model evaluation undecided (e.g. division by zero in the model): ask
        rt = self.check(cond)
        rf = self.check(z3.Not(cond))
        if rt != z3.unsat:
            self.trace.append((True, rf != z3.unsat))
            self.solver.add(cond)
            self.model = None
            return True
        self.trace.append((False, False))
        self.solver.add(z3.Not(cond))
        self.model = None
        return False

    def concretize_int(self, term):
        term = z3.simplify(term)
        if z3.is_int_value(term):
            return term.as_long()
        tries = 0
        while True:
            v = self._model().eval(term, model_completion=True).as_long()
            if self.decide(term == v):
                return v
            tries += 1
            if tries > 48:
                # an integer with an unbounded (or very large) range is being used as a container index / hash key:
                # enumerating its values would never end
                raise Inconclusive("concretisation of an integer with more than 48 feasible values")

    # ---------------------------------------------------------------- inputs
    def fresh(self, stem):
        self.fresh_n += 1
        return "%s!%d" % (stem, self.fresh_n)

    def real(self, name, lo=None, hi=None, lo_open=False, hi_open=False):
        if self.mode == "native":
            if name not in self.assignment:      # declared after the failing obligation: unconstrained
                return float(lo if lo is not None else (hi if hi is not None else 0))
            return float(Fraction(self.assignment[name]))
        t = z3.Real(name)
        self.inputs[name] = t
        if lo is not None:
            self.solver.add(t > to_real(lo) if lo_open else t >= to_real(lo))
        if hi is not None:
            self.solver.add(t < to_real(hi) if hi_open else t <= to_real(hi))
        self.model = None
        return SymReal(t)

    def int(self, name, lo=None, hi=None):
        if self.mode == "native":
            if name not in self.assignment:
                return int(lo if lo is not None else (hi if hi is not None else 0))
            return int(Fraction(self.assignment[name]))
        t = z3.Int(name)
        self.inputs[name] = t
        if lo is not None:
            self.solver.add(t >= to_int(lo))
        if hi is not None:
            self.solver.add(t <= to_int(hi))
        self.model = None
        return SymInt(t)

    def bool(self, name):
        if self.mode == "native":
            v = self.assignment.get(name, False)
            return v in (True, "True", "true", 1, "1")
        t = z3.Bool(name)
        self.inputs[name] = t
        return SymBool(t)

    def free_decision(self):
        """a decision both of whose sides are feasible by construction (fresh,
        otherwise unconstrained hole): no solver call needed"""
        k = len(self.trace)
        if k < len(self.prefix):
            v, pend = self.prefix[k]
            self.trace.append((v, pend))
            return v
        self.trace.append((True, True))
        return True

    def choice(self, name, n):
        """A concrete index in range(n): a fresh hole, case-split exhaustively."""
        if self.mode == "native":
            if name not in self.assignment:
                return 0
            return int(Fraction(self.assignment[name]))
        v = n - 1
        for i in range(n - 1):
            if self.free_decision():
                v = i
                break
        t = z3.Int(name)
        self.inputs[name] = t
        self.inputs_holes.append(name)
        self.solver.add(t == v)
        return v

    def flag(self, name):
        """A concrete Boolean hole, case-split exhaustively."""
        if self.mode == "native":
            return self.bool(name)
        v = self.free_decision()
        t = z3.Bool(name)
        self.inputs[name] = t
        self.inputs_holes.append(name)
        self.solver.add(t == v)
        return v

    # ----------------------------------------------------------- assignments
    def assignment_from(self, model):
        out = {}
        for name, t in self.inputs.items():
            v = model.eval(t, model_completion=True)
            if z3.is_bool(v):
                out[name] = bool(z3.is_true(v))
            elif z3.is_fp(v):
                import struct
                bits = z3.simplify(z3.fpToIEEEBV(v)).as_long()
                out[name] = repr(struct.unpack("<d", struct.pack("<Q", bits))[0])
            else:
                f = frac_of(v)
                out[name] = str(f)
        return out

    def current_assignment(self):
        if self.mode == "native":
            return dict(self.assignment)
        try:
            r = self.check()
        except BudgetExceeded:
            return None
        if r != z3.sat:
            return None
        return self.assignment_from(self.solver.model())

    # ---------------------------------------------------------------- verdicts
    def cover(self, tag):
        self.covers.add(tag)

    def note(self, key, value):
        self.notes[key] = value

    def prove(self, cond, msg=""):
        self.obligations += 1
        if isinstance(cond, bool):
            if not cond:
                raise Violation(msg, self.current_assignment())
            self.discharged += 1
            return
        c = as_z3_bool(cond)
        r = self.check(z3.Not(c))
        if r == z3.unsat:
            self.discharged += 1
            return
        if r == z3.sat:
            model = self.solver.model()
            robust = getattr(cond, "neg_robust", None)
            if robust is not None and self.check(robust) == z3.sat:
                # prefer a counterexample with a margin: one that survives the replay in doubles
                model = self.solver.model()
            raise Violation(msg, self.assignment_from(model))
        raise Inconclusive("unknown: " + msg)

    # numeric comparisons that carry the native slack in replay mode
    def eq(self, a, b, tol=0):
        if _is_native(a) and _is_native(b):
            return abs(a - b) <= tol + self.slack * (1 + abs(a) + abs(b))
        ta, tb = to_real(a), to_real(b)
        d = ta - tb
        res = SymBool(d == 0) if tol == 0 else SymBool(z3.And(d <= to_real(tol), -d <= to_real(tol)))
        res.neg_robust = zabs(d) > to_real(tol) + rat(1e-6) * (1 + zabs(ta) + zabs(tb))
        return res

    def le(self, a, b, tol=0):
        if _is_native(a) and _is_native(b):
            return a <= b + tol + self.slack * (1 + abs(a) + abs(b))
        ta, tb = to_real(a), to_real(b)
        res = SymBool(ta <= tb + to_real(tol))
        res.neg_robust = ta - tb > to_real(tol) + rat(1e-6) * (1 + zabs(ta) + zabs(tb))
        return res


def _is_native(x):
    return type(x) in (int, float, bool, Fraction)


def cur():
    return Space.cur


def prove(cond, msg=""):
    Space.cur.prove(cond, msg)


def as_z3_bool(c):
    if type(c) is SymBool:
        return c.t
    if isinstance(c, bool):
        return z3.BoolVal(c)
    if z3.is_expr(c):
        return c
    raise TypeError("not a condition: %r" % (c,))


_rat_cache = {}


def rat(x):
    """exact z3 Real constant for a Python number"""
    key = (type(x), x)
    r = _rat_cache.get(key)
    if r is None:
        f = Fraction(x)
        if f.denominator == 1:
            r = z3.RealVal(f.numerator)
        else:
            r = z3.Q(f.numerator, f.denominator)
        if len(_rat_cache) < 100000:
            _rat_cache[key] = r
    return r


def to_real(x):
    tx = type(x)
    if tx is SymReal:
        return x.t
    if tx is SymInt:
        return z3.ToReal(x.t)
    if tx is bool:
        return rat(int(x))
    if tx is int:
        return rat(x)
    if tx is float:
        if x != x or x in (float("inf"), float("-inf")):
            raise ValueError("non-finite float in exact-real mode")
        return rat(x)
    if tx is Fraction:
        return rat(x)
    if z3.is_expr(x):
        if x.sort() == z3.IntSort():
            return z3.ToReal(x)
        return x
    return None


def to_int(x):
    tx = type(x)
    if tx is SymInt:
        return x.t
    if tx is bool:
        return z3.IntVal(int(x))
    if tx is int:
        return z3.IntVal(x)
    if z3.is_expr(x) and x.sort() == z3.IntSort():
        return x
    return None


class SymBool:
    __slots__ = ("t", "neg_robust")

    def __init__(self, t):
        self.t = t
        self.neg_robust = None

    def __bool__(self):
        return Space.cur.decide(self.t)

    def __and__(self, o):
        return SymBool(z3.And(self.t, as_z3_bool(o)))

    __rand__ = __and__

    def __or__(self, o):
        return SymBool(z3.Or(self.t, as_z3_bool(o)))

    __ror__ = __or__

    def __invert__(self):
        return SymBool(z3.Not(self.t))

    def __eq__(self, o):
        return SymBool(self.t == as_z3_bool(o))

    def __ne__(self, o):
        return SymBool(self.t != as_z3_bool(o))

    def __hash__(self):
        return hash(bool(self))

    def __format__(self, spec):
        return "<symbool>"

    def __repr__(self):
        return "<symbool>"

    __str__ = __repr__

    def __deepcopy__(self, memo):
        return self

    def __copy__(self):
        return self


def _num_binop(fn, int_closed=True):
    def op(self, other):
        if type(self) is SymInt and int_closed:
            oi = to_int(other)
            if oi is not None:
                return SymInt(fn(self.t, oi))
        b = to_real(other)
        if b is None:
            return NotImplemented
        return SymReal(fn(to_real(self), b))

    def rop(self, other):
        if type(self) is SymInt and int_closed:
            oi = to_int(other)
            if oi is not None:
                return SymInt(fn(oi, self.t))
        b = to_real(other)
        if b is None:
            return NotImplemented
        return SymReal(fn(b, to_real(self)))
    return op, rop


def _cmp(fn):
    def op(self, other):
        if type(self) is SymInt:
            oi = to_int(other)
            if oi is not None:
                return SymBool(fn(self.t, oi))
        b = to_real(other)
        if b is None:
            return NotImplemented
        return SymBool(fn(to_real(self), b))
    return op


_eq = _cmp(lambda a, b: a == b)
_ne = _cmp(lambda a, b: a != b)
_div, _rdiv = _num_binop(lambda a, b: a / b, int_closed=False)


class SymNum:
    __slots__ = ()
    __add__, __radd__ = _num_binop(lambda a, b: a + b)
    __sub__, __rsub__ = _num_binop(lambda a, b: a - b)
    __mul__, __rmul__ = _num_binop(lambda a, b: a * b)
    __lt__ = _cmp(lambda a, b: a < b)
    __le__ = _cmp(lambda a, b: a <= b)
    __gt__ = _cmp(lambda a, b: a > b)
    __ge__ = _cmp(lambda a, b: a >= b)

    def __truediv__(self, other):
        if to_real(other) is None:
            return NotImplemented
        if bool(other == 0):
            raise ZeroDivisionError("division by zero")
        return _div(self, other)

    def __rtruediv__(self, other):
        if to_real(other) is None:
            return NotImplemented
        if bool(self == 0):
            raise ZeroDivisionError("division by zero")
        return _rdiv(self, other)

    def __eq__(self, other):
        r = _eq(self, other)
        return False if r is NotImplemented else r

    def __ne__(self, other):
        r = _ne(self, other)
        return True if r is NotImplemented else r

    def __bool__(self):
        return bool(self != 0)

    def __pos__(self):
        return self

    def __format__(self, spec):
        return "<sym>"

    def __repr__(self):
        sp = Space.cur
        reg = getattr(sp, "repr_registry", None) if sp is not None else None
        if reg is None:
            return "<sym>"
        # text round trips: a symbolic number is written as an identifier that the reader's
        # namespace resolves back to this very object
        name = "_sym%d_" % len(reg)
        reg[name] = self
        return name

    __str__ = __repr__

    def __deepcopy__(self, memo):
        return self

    def __copy__(self):
        return self


class SymReal(SymNum):
    __slots__ = ("t",)
    __class__ = property(lambda self: float)

    def __init__(self, t):
        self.t = t

    def __neg__(self):
        return SymReal(-self.t)

    def __abs__(self):
        return SymReal(z3.If(self.t >= 0, self.t, -self.t))

    def __float__(self):
        raise TypeError("float() of a symbolic real")

    def __hash__(self):
        # every symbolic real lands in the same bucket, so sets / dicts decide membership with ==, which forks on the
        # symbolic equality (two terms that are equal for some values, e.g. p and 1-p at 1/2, are then found equal there)
        return 0x5EA1

    def __round__(self, nd=None):
        """round() as a monotone function within half a unit of its argument
        (weaker than the real function, so what is proved under it holds)."""
        sp = Space.cur
        y = z3.simplify(self.t)
        if z3.is_rational_value(y):
            k = round(float(frac_of(y)), nd)
            return k if nd is None else SymReal(to_real(k))
        if nd is not None and type(nd) is not int:
            nd = int(nd)
        for (y0, r0, nd0) in sp.rounds:
            if nd0 == nd and z3.eq(y0, y):
                return SymReal(r0) if nd is not None else SymInt(r0)
        idx = len(sp.rounds)
        if nd is None:
            r = z3.Int("round!%d" % idx)
            rr = z3.ToReal(r)
        else:
            r = z3.Real("round!%d" % idx)
            rr = r
        half = z3.Q(1, 2 * 10 ** (nd or 0))
        sp.solver.add(rr - y <= half, y - rr <= half)
        # integers are fixed points of round(., nd) and the function is monotone
        for anchor in (0, 1):
            sp.solver.add(z3.Implies(y <= anchor, rr <= anchor), z3.Implies(y >= anchor, rr >= anchor))
        for (y0, r0, nd0) in sp.rounds:
            if nd0 == nd:
                r0r = z3.ToReal(r0) if nd is None else r0
                sp.solver.add(z3.Implies(y0 <= y, r0r <= rr), z3.Implies(y <= y0, rr <= r0r))
        sp.rounds.append((y, r, nd))
        sp.model = None
        return SymReal(r) if nd is not None else SymInt(r)


class SymInt(SymNum):
    __slots__ = ("t",)
    __class__ = property(lambda self: int)

    def __init__(self, t):
        self.t = t

    def __neg__(self):
        return SymInt(-self.t)

    def __abs__(self):
        return SymInt(z3.If(self.t >= 0, self.t, -self.t))

    def __index__(self):
        return Space.cur.concretize_int(self.t)

    __int__ = __index__

    def __hash__(self):
        return hash(Space.cur.concretize_int(self.t))

    def __mod__(self, o):
        oi = to_int(o)
        if oi is None:
            return NotImplemented
        if bool(SymBool(oi == 0)):
            raise ZeroDivisionError("integer modulo by zero")
        # Python's % takes the sign of the divisor; z3's mod is non-negative.
        # All uses here have a positive divisor; enforce that on the path.
        if not bool(SymBool(oi > 0)):
            raise NotImplementedError("symbolic modulo by a negative divisor")
        return SymInt(self.t % oi)

    def __rmod__(self, o):
        return SymInt(to_int(o)) % self

    def __floordiv__(self, o):
        oi = to_int(o)
        if oi is None:
            return NotImplemented
        if bool(SymBool(oi == 0)):
            raise ZeroDivisionError("integer division by zero")
        if not bool(SymBool(oi > 0)):
            raise NotImplementedError("symbolic floor division by a negative divisor")
        return SymInt(self.t / oi)

    def __round__(self, nd=None):
        return self

    def __float__(self):
        raise TypeError("float() of a symbolic int")


def zabs(x):
    return z3.If(x >= 0, x, -x)


def zmax(xs):
    m = xs[0]
    for x in xs[1:]:
        m = z3.If(x > m, x, m)
    return m


def zmin(xs):
    m = xs[0]
    for x in xs[1:]:
        m = z3.If(x < m, x, m)
    return m


# ------------------------------------------------------------------ exploration
def explore(fn, max_paths=200000, timeout_s=3600, qtimeout_ms=20000, expected=(),
            max_violations=5, collect_samples=3):
    """Run ``fn(space)`` over every path of its decision tree.

    Returns a stats dict.  ``expected`` lists exception classes the harness
    declares as legitimate outcomes of the code under test at top level (they end
    the path quietly).  Anything else escaping is a violation candidate.
    """
    prefix = []
    st = dict(paths=0, aborted=0, cut=0, completed=0, queries=0, solver_s=0.0, unknowns=0,
              obligations=0, discharged=0, violations=[], inconclusive=[], covers={},
              samples=[], exhausted=False, decisions=0, max_depth=0, outcomes={})
    t0 = time.time()
    deadline = t0 + timeout_s
    while True:
        sp = Space(prefix=prefix, qtimeout_ms=qtimeout_ms, deadline=deadline)
        Space.cur = sp
        outcome = "completed"
        stop = False
        try:
            fn(sp)
            if sp.obligations and len(sp.solver.assertions()) > len(sp.inputs_holes):
                # reachability twin: `prove(False)` here must be violated,
                # i.e. the path condition (incl. oracle constraints) is satisfiable
                if sp.check() != z3.sat:
                    raise Inconclusive("vacuous path: final path condition not satisfiable")
        except Infeasible:
            outcome = "aborted"
        except BudgetExceeded:
            outcome = "budget"
            stop = True
        except PathCut:
            outcome = "cut"
        except PathAbort:
            outcome = "cut"
        except Violation as e:
            outcome = "violation"
            st["violations"].append(dict(msg=e.msg, assignment=e.assignment, kind=e.kind,
                                         prefix=[bool(v) for v, _ in sp.trace]))
        except Inconclusive as e:
            outcome = "inconclusive"
            st["inconclusive"].append(str(e))
        except expected:
            outcome = "completed"
        except RecursionError as e:
            outcome = "violation"
            st["violations"].append(dict(msg="EXC RecursionError", assignment=_safe_assignment(sp),
                                         kind="exception", prefix=[bool(v) for v, _ in sp.trace]))
        except Exception as e:  # undeclared exception from the code under test
            outcome = "violation"
            import traceback
            tb = traceback.extract_tb(e.__traceback__)
            where = "%s:%d" % (tb[-1].filename.split("/")[-1], tb[-1].lineno) if tb else "?"
            if tb and not any(_is_repo_file(fr.filename) for fr in tb) and not isinstance(e, AssertionError):
                # no frame of the code under test on the stack: raised by harness / engine code itself, never a verdict
                # (an exception raised by a stub or proxy *while the code under test is running* is that code's exception)
                outcome = "inconclusive"
                st["inconclusive"].append("harness error %s: %s @%s" % (type(e).__name__, e, where))
                tb = None
            if tb is not None:
              st["violations"].append(dict(msg="EXC %s: %s @%s" % (type(e).__name__, e, where),
                                         assignment=_safe_assignment(sp), kind="exception",
                                         prefix=[bool(v) for v, _ in sp.trace]))
        finally:
            Space.cur = None
        st["paths"] += 1
        st["outcomes"][outcome] = st["outcomes"].get(outcome, 0) + 1
        if outcome in ("completed", "aborted", "cut"):
            st[outcome] += 1
        st["queries"] += sp.n_checks
        st["solver_s"] += sp.t_solver
        st["unknowns"] += sp.unknowns
        st["obligations"] += sp.obligations
        st["discharged"] += sp.discharged
        st["decisions"] += len(sp.trace)
        st["max_depth"] = max(st["max_depth"], len(sp.trace))
        if outcome in ("completed", "violation"):
            for c in sp.covers:
                st["covers"][c] = st["covers"].get(c, 0) + 1
        if outcome == "completed" and len(st["samples"]) < collect_samples and sp.obligations:
            try:
                Space.cur = sp
                a = sp.current_assignment()
            except BaseException:
                a = None
            finally:
                Space.cur = None
            st["samples"].append(dict(assignment=a, notes=sp.notes, obligations=sp.obligations,
                                      decisions=len(sp.trace)))
        if stop:
            break
        tr = sp.trace
        while tr and not tr[-1][1]:
            tr.pop()
        if not tr:
            st["exhausted"] = True
            break
        v, _ = tr.pop()
        prefix = list(tr) + [(not v, False)]
        if st["paths"] >= max_paths or time.time() > deadline or len(st["violations"]) >= max_violations:
            break
    st["wall_s"] = time.time() - t0
    return st


_HERE = __file__.rsplit("/", 2)[0]


def _is_harness_file(fn):
    return fn.startswith(_HERE + "/")


def _is_repo_file(fn):
    from . import repo
    return fn.startswith(repo.REPO.rstrip("/") + "/")


def _safe_assignment(sp):
    try:
        Space.cur = sp
        return sp.current_assignment()
    except BaseException:
        return None


def run_native(fn, assignment, expected=()):
    """Replay: run the harness on native numbers.  Returns None if nothing fails,
    else a description of the failure."""
    sp = Space(mode="native", assignment=assignment)
    Space.cur = sp
    try:
        fn(sp)
    except Violation as e:
        return "assert: " + e.msg
    except Inconclusive as e:
        return None
    except PathAbort:
        return None
    except expected:
        return None
    except RecursionError:
        return "EXC RecursionError"
    except Exception as e:
        return "EXC %s: %s" % (type(e).__name__, e)
    finally:
        Space.cur = None
    return None
