"""Engine self-test (DESIGN 2.9): engine-vs-native differential on concrete games, and a
few known-answer solver obligations (a sat one must be found, an unsat one discharged)."""
import copy
import sys
import time

import z3

from . import core, repo


def _games():
    P1, P2, PR = "Player 1", "Player 2", "Probabilistic"
    yield "fig5.5", dict(rewards=[0, 0, 0, 1, 2, 0, 0, 0], players=[P1, P2, P2, PR, PR, PR, PR, PR],
                         transition_list=[[("alfa", 1), ("beta", 2)], [("x", 3), ("y", 5)], [("x", 4), ("y", 6)],
                                          [(0.5, 6), (0.5, 7)], [(0.75, 6), (0.25, 7)], [(1, 5)], [(1, 6)], [(1, 7)]],
                         final_states=[6])
    yield "cycle", dict(rewards=[1, 2, 0.5, 0, 0], players=[P1, PR, P2, PR, PR],
                        transition_list=[[("a", 1), ("b", 2)], [(1 / 64, 0), (0.5, 3), (0.484375, 4)],
                                         [("x", 1), ("y", 3)], [(1, 3)], [(1, 4)]], final_states=[3])


def differential():
    t = repo.std().tad
    bad = 0
    for name, g in _games():
        for prune in (True, False):
            nat = t.StochasticGame(prune_states=prune, **copy.deepcopy(g)).solve()

            def fn(sp, g=g, prune=prune, nat=nat):
                gg = copy.deepcopy(g)
                gg["rewards"] = [core.SymReal(core.to_real(r)) for r in gg["rewards"]]
                res = t.StochasticGame(prune_states=prune, **gg).solve()
                assert res[0] == nat[0] and res[1] == nat[1], (res[:2], nat[:2])
                for a, b in zip(res[2], nat[2]):
                    sp.prove(sp.eq(a, b, 1e-9), "reward differs from native run")
                for k in (6, 7):
                    for a, b in zip(res[k], nat[k]):
                        sp.prove(sp.eq(a, b, 1e-9), "diagnostic differs from native run")
            st = core.explore(fn, timeout_s=120)
            ok = st["exhausted"] and not st["violations"] and not st["inconclusive"] and st["paths"] == 1
            print("selftest differential %-7s prune=%-5s paths=%d obligations=%d %s" % (
                name, prune, st["paths"], st["obligations"], "ok" if ok else "FAIL %s" % st["violations"][:1]))
            bad += not ok
    return bad


def known_answers():
    bad = 0

    def sat_case(sp):
        x = sp.real("x", 0, 1)
        y = x * 2
        if y > 1:
            sp.prove(x > 0.75, "must fail for x in (0.5, 0.75]")
    st = core.explore(sat_case)
    ok = len(st["violations"]) == 1 and st["exhausted"]
    if ok:
        a = st["violations"][0]["assignment"]
        ok = core.run_native(sat_case, a) is not None
    print("selftest known-sat   %s" % ("ok" if ok else "FAIL"))
    bad += not ok

    def unsat_case(sp):
        x = sp.real("x", 0, 1)
        k = sp.int("k", 0, 3)
        lst = [10, 20, 30, 40]
        v = lst[k]
        sp.prove(v == 10 * (int(k) + 1), "indexing by a symbolic int")
        sp.prove(abs(x - 0.5) <= 0.5, "abs")
        sp.prove(max(x, 0.25) >= 0.25, "max")
        sp.prove(round(x, 3) <= 1.001, "round model")
    st = core.explore(unsat_case)
    ok = not st["violations"] and st["exhausted"] and st["completed"] >= 4
    print("selftest known-unsat %s (paths=%d)" % ("ok" if ok else "FAIL %s" % st["violations"][:1], st["paths"]))
    bad += not ok
    return bad


def cross_engine():
    """CrossHair on the scalar lemmas this engine proves in tad.reach_step / tad.reward_step"""
    from . import xcheck, runner
    res = xcheck.run(per_condition_timeout=60)
    if res is None:
        print("selftest cross-engine: CrossHair not available, skipped")
        return 0
    # this engine's verdict on the same lemmas (K=3 / K=2 instances of the node lemmas)
    runner.load_checks()
    mine = 0
    for hid, params in (("tad.reach_step", dict(kind="Player 1", K=3)), ("tad.reach_step", dict(kind="Player 2", K=3)),
                        ("tad.reward_step", dict(kind="Player 1", K=2)), ("tad.reward_step", dict(kind="Player 2", K=2))):
        r = runner.run_job((hid, params))
        mine += len(r.get("violations", [])) + (1 if "error" in r else 0)
    disagree = bool(res["counterexamples"]) != bool(mine)
    print("selftest cross-engine: CrossHair confirmed %d, counterexamples %d, unconfirmed %d; this engine: %d counterexample(s) -> %s" % (
        len(res["confirmed"]), len(res["counterexamples"]), len(res["other"]), mine, "DISAGREE" if disagree else "agree"))
    for c in res["counterexamples"][:3]:
        print("   crosshair: " + c[:200])
    return 1 if disagree else 0


def main():
    t0 = time.time()
    bad = known_answers() + differential() + cross_engine()
    print("selftest: %s in %.1fs (z3 %s, repo %s)" % ("OK" if not bad else "%d FAILED" % bad, time.time() - t0,
                                                       z3.get_version_string(), repo.REPO))
    return 0 if not bad else 2
