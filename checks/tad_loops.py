"""Loop post-condition harnesses (DESIGN 3.2): the real value-iteration loops run their
*last sweep* from an arbitrary pre-state (cut list with budget 1)."""
import itertools

from symex.runner import harness
from symex.core import PathCut
from .common import *

KINDS = (P1, P2, PR)
ROLES3 = [("L", "L", "F"), ("L", "U", "F"), ("L", "F", "L"), ("U", "L", "F"), ("L", "L", "L"), ("F", "L", "L")]


def mk_node_m(kind, idx, reward, next_states, n):
    t = tad_merged()
    cls = {P1: t.PlayerOne, P2: t.PlayerTwo, PR: t.ProbabilisticNode}[kind]
    return cls(player=kind, idx=idx, reward=reward, next_states=next_states, num_states=n, is_final_node=False)


def _build(sp, n, kinds, emptied=(), ring=False, fixed_last=False):
    if fixed_last:   # the last state is an absorbing chance state (used as the final state)
        succ = [[sp.choice("s%d_%d" % (i, k), n) for k in range(2)] for i in range(n - 1)] + [[n - 1, n - 1]]
    elif ring:   # second successor fixed to the next state (keeps n=3 within reach)
        succ = [[sp.choice("s%d_0" % i, n), (i + 1) % n] for i in range(n)]
    else:
        succ = [[sp.choice("s%d_%d" % (i, k), n) for k in range(2)] for i in range(n)]
    states = []
    for i in range(n):
        if i in emptied:
            ns = []
        elif kinds[i] == PR:
            ns = [(0.25, succ[i][0]), (0.75, succ[i][1])]
        else:
            ns = [("a", succ[i][0]), ("b", succ[i][1])]
        states.append(mk_node_m(kinds[i], i, 0, ns, n))
    return succ, states


def _bellman_reach(kind, sv):
    if kind == P1:
        return vmax(sv)
    if kind == P2:
        return vmin(sv)
    return 0.25 * sv[0] + 0.75 * sv[1]


def _reach_jobs(tier, seed):
    jobs = []
    for kinds in itertools.product(KINDS, repeat=2):
        for roles in itertools.product("LUF", repeat=2):
            jobs.append(dict(n=2, kinds=list(kinds), roles=list(roles), _cost=1))
    for thr in (1e-3, 1e-9):
        # the solver's own threshold (not the default) is what the loop must honour
        jobs.append(dict(n=3, kinds=[PR, P1, PR], roles=["L", "L", "F"], fixed_last=True, thr=thr, _cost=10))
        jobs.append(dict(n=3, kinds=[P2, PR, PR], roles=["L", "L", "F"], fixed_last=True, thr=thr, _cost=10))
    for kinds in itertools.product(KINDS, repeat=2):
        # two listed states in front of an absorbing final state: the smallest shape in which one state's
        # update can be small while the other's is large
        jobs.append(dict(n=3, kinds=list(kinds) + [PR], roles=["L", "L", "F"], fixed_last=True, _cost=10))
    if tier == "thorough":
        for kinds in itertools.product(KINDS, repeat=3):
            for roles in ROLES3[:3]:
                jobs.append(dict(n=3, kinds=list(kinds), roles=list(roles), _cost=30, _timeout_s=1500))
    return jobs


@harness("tad.loop_reach", props=["C01", "C06"], jobs=_reach_jobs,
         covers=["returned", "no_solution", "unlisted", "final"],
         bounds="n=2: every kind assignment x every successor pair x every role assignment (listed/unlisted/final); "
                "n=3 with an absorbing final third state: all 9 kind pairs x all 81 successor assignments; n=3 (thorough only): all 27 kind assignments x 3 role vectors x all 729 successor "
                "assignments; chance probabilities 1/4,3/4; arbitrary pre-state in [0,1]; prune flag symbolic",
         assumes=["pre-state satisfies Inv_reach (0<=v<=1, finals = 1)",
                  "paper step: max/min/convex sums are non-expansive, so a last sweep that moved every entry by <= eps "
                  "leaves Bellman residual <= eps"],
         desc="real Solver.value_iteration_reachability, last sweep from an arbitrary state: on return every listed state "
              "has Bellman residual <= threshold, unlisted and final states are untouched, the diagnostic vector is seeded, "
              "the sweep count is returned, and 'no solution' is raised iff pruning and state 0 has value exactly 0")
def loop_reach(sp, n, kinds, roles, fixed_last=False, thr=None):
    t = tad_merged()
    succ, states = _build(sp, n, kinds, fixed_last=fixed_last)
    pre = []
    for i in range(n):
        if roles[i] == "F":
            states[i].is_final_node = True
            pre.append(1)
        else:
            pre.append(sp.real("v%d" % i, 0, 1))
        states[i].reach_probability = pre[i]
        states[i].expected_reach_min_rewards = sp.real("q%d" % i, 0, 1)
    listed = [i for i in range(n) if roles[i] == "L"]
    prune = sp.bool("prune")
    solver = t.Solver(state_list=states, threshold=(thr if thr is not None else 10 ** (-6)))
    thr = solver.threshold
    raised = False
    try:
        ret = solver.value_iteration_reachability(CutList(listed, budget=1), prune)
    except ValueError as e:
        raised = True
        sp.prove("no solution" in str(e), "unexpected ValueError: %s" % e)
    out = [s.reach_probability for s in states]
    zero0 = sp.eq(out[0], 0) if is_sym(out[0]) else (out[0] == 0)
    if raised:
        sp.cover("no_solution")
        sp.prove(b_and(zero0, prune), "'no solution' raised although pruning is off or state 0 has positive value")
        return
    sp.cover("returned")
    sp.prove(b_not(b_and(zero0, prune)), "pruning on and state 0 has value 0 but no error was raised")
    sp.prove(ret == 1 if not listed else ret == 1, "sweep count returned")
    for i in range(n):
        if roles[i] == "L":
            b = _bellman_reach(kinds[i], [out[succ[i][0]], out[succ[i][1]]])
            sp.prove(sp.eq(b, out[i], thr), "Bellman residual of listed state %d exceeds the threshold on return" % i)
            sp.prove(b_and(sp.le(0, out[i]), sp.le(out[i], 1)), "value leaves [0,1]")
        else:
            sp.cover("final" if roles[i] == "F" else "unlisted")
            sp.prove(sp.eq(out[i], pre[i]), "state %d outside the backward-reachable list was modified" % i)
        sp.prove(sp.eq(states[i].expected_reach_min_rewards, out[i]), "diagnostic vector not seeded with the final probabilities")


def _rew_jobs(tier, seed):
    jobs = []
    for kinds in itertools.product(KINDS, repeat=2):
        for em in ([], [1]):
            jobs.append(dict(n=2, kinds=list(kinds), emptied=em, _cost=1))
    if tier == "thorough":
        for kinds in itertools.product(KINDS, repeat=3):
            jobs.append(dict(n=3, kinds=list(kinds), emptied=[], ring=True, _cost=50, _timeout_s=1500))
    return jobs


@harness("tad.loop_rew", props=["C02", "C14", "C06"], jobs=_rew_jobs, covers=["returned", "emptied"],
         bounds="n=2 all kinds x successors (one state optionally emptied); n=3 (thorough only): "
                "all 27 kind assignments, first successor free and second successor the next state; chance probabilities 1/4,3/4; rewards and pre-state arbitrary >= 0",
         assumes=["pre-state satisfies Inv_rew", "paper step: non-expansiveness as for tad.loop_reach"],
         desc="real Solver.value_iteration_total_rewards, last sweep from an arbitrary state: on return the reward vector has "
              "Bellman residual <= threshold at every state, none of the three tracked quantities moved by more than the "
              "threshold, emptied states are worth 0, the sweep count is returned")
def loop_rew(sp, n, kinds, emptied, ring=False):
    t = tad_merged()
    succ, states = _build(sp, n, kinds, emptied, ring)
    r, w0, a0, q0 = [], [], [], []
    for i in range(n):
        r.append(sp.real("r%d" % i, 0, None))
        w0.append(sp.real("w%d" % i, 0, None))
        a0.append(sp.real("a%d" % i, 0, None))
        q0.append(sp.real("q%d" % i, 0, 1))
        st = states[i]
        st.reward = r[i]
        st.expected_rewards, st.expected_rewards_min_reach, st.expected_reach_min_rewards = w0[i], a0[i], q0[i]
        # reachability values are not iterated by this loop: a concrete menu suffices for the
        # Player 2 tie recognition (symbolic values are covered by tad.reward_step)
        st.reach_probability = (0.5, 1)[sp.choice("v%d" % i, 2)] if P2 in kinds else 0.5
    solver = t.Solver(state_list=CutList(states, budget=1), threshold=10 ** (-6))
    thr = solver.threshold
    ret = solver.value_iteration_total_rewards()
    sp.cover("returned")
    sp.prove(ret == 1, "sweep count returned")
    w = [s.expected_rewards for s in states]
    for i in range(n):
        st = states[i]
        if i in emptied:
            sp.cover("emptied")
            sp.prove(b_and(sp.eq(w[i], 0), sp.eq(st.expected_rewards_min_reach, 0), sp.eq(st.expected_reach_min_rewards, 0)),
                     "emptied state not worth 0")
            continue
        sw = [w[succ[i][0]], w[succ[i][1]]]
        if kinds[i] == P1:
            b = r[i] + vmax(sw)
        elif kinds[i] == P2:
            b = r[i] + vmin(sw)
        else:
            b = r[i] + 0.25 * sw[0] + 0.75 * sw[1]
        sp.prove(sp.eq(b, w[i], thr), "reward Bellman residual of state %d exceeds the threshold on return" % i)
        sp.prove(sp.eq(w[i], w0[i], thr), "returned although expected_rewards of state %d moved by more than the threshold" % i)
        sp.prove(sp.eq(st.expected_rewards_min_reach, a0[i], thr),
                 "returned although rewards-under-min-reach of state %d moved by more than the threshold" % i)
        sp.prove(sp.eq(st.expected_reach_min_rewards, q0[i], thr),
                 "returned although reach-under-min-reward of state %d moved by more than the threshold" % i)
