"""C12 (run_games isolation and failure reporting), C16 (report writer / reader / main) on the real
conditionalrewards.py."""
import copy
import itertools

import z3

from symex import repo, core
from symex.core import SymBool, Violation
from symex.runner import harness
from . import games as G
from .common import *
from .pipe import tad_pipe, build, SweepBudget

_cr = {}


class FakeFile:
    store = {}
    opened = []

    def __init__(self, name, mode="r", encoding=None, errors=None, **kw):
        self.name, self.mode, self.buf = name, mode, []
        self.encoding = encoding
        self.errors = errors or "strict"
        FakeFile.opened.append((name, mode))

    def write(self, s):
        self.buf.append(s)

    def read(self):
        text = FakeFile.store[self.name]
        if self.encoding and self.encoding.lower().replace("-", "") not in ("utf8",):
            # the stored text is what a UTF-8 file on disk contains: reading it with another codec mangles non-ASCII
            text = text.encode("utf-8").decode(self.encoding, errors=self.errors)
        return text

    def close(self):
        if "w" in self.mode:
            text = "".join(self.buf)
            if self.encoding and self.encoding.lower().replace("-", "") not in ("utf8",):
                text = text.encode(self.encoding, errors=self.errors).decode("utf-8", errors="replace")
            FakeFile.store[self.name] = text

    def __enter__(self):
        return self

    def __exit__(self, *a):
        self.close()


def cr_mod():
    if "m" not in _cr:
        std = repo.std()
        _cr["m"] = repo.load("conditionalrewards", overrides={"open": FakeFile},
                             imports={"tad": tad_pipe(), "reverse_dfs": std.reverse_dfs}, alias="conditionalrewards_stub")
    return _cr["m"]


# ------------------------------------------------------------------------------------------ C12
def _menu(sp, k, tag):
    """game k of the menu with its own reward variables; returns (description, kind)"""
    if k == 0:
        return build("fig55", [0.5, 0.75]).description(sp, prefix=tag + "r"), "ok"
    if k == 1:
        return build("dead", [P1, ["D", "A"]]).description(sp, prefix=tag + "r", nsym=2), "ok"
    if k == 2:
        return build("dead", [PR, ["A", "D", "D"]]).description(sp, prefix=tag + "r", nsym=1), "ok"
    if k == 3:
        return build("nosol", ["forced"]).description(sp, prefix=tag + "r", nsym=0), "nosol"
    if k == 4:
        d = build("fig55", [0.5, 0.75]).description(sp, prefix=tag + "r", nsym=0)
        d["rewards"][3] = sp.real(tag + "neg", None, 0, hi_open=True)
        return d, "bad"
    if k == 6:      # malformed in a way that a builtin, not the validator's own raise, reports (max() of no final states)
        d = build("fig55", [0.5, 0.75]).description(sp, prefix=tag + "r", nsym=0)
        d["final_states"] = []
        return d, "bad"
    if k in (9, 10, 11):   # malformed transition of a probabilistic state (caught only inside solve(), i.e. inside run_games' try)
        d = build("fig55", [0.5, 0.75]).description(sp, prefix=tag + "r", nsym=0)
        d["transition_list"][3] = {9: [(0.5, 6, 0), (0.5, 7)], 10: [("0.5", 6), (0.5, 7)], 11: [(0.5,), (0.5, 7)]}[k]
        return d, "bad"
    if k in (16, 17):   # a game that spells out the documented prune_states argument itself
        d = build("dead", [PR, ["A", "D"]]).description(sp, prefix=tag + "r", nsym=1) if k == 16 else \
            build("nosol", ["forced"]).description(sp, prefix=tag + "r", nsym=0)
        d["prune_states"] = (k == 17)
        return d, ("ok" if k == 16 else "nosol")
    if k == 12:     # the per-state container is a tuple of pairs instead of a list
        d = build("fig55", [0.5, 0.75]).description(sp, prefix=tag + "r", nsym=0)
        d["transition_list"][4] = tuple(d["transition_list"][4])
        return d, "bad"
    if k == 13:
        return build("all_live_orphan", []).description(sp, prefix=tag + "r", nsym=0), "ok"
    if k in (14, 15):
        return build("p2_shared", ["a" if k == 14 else "b"]).description(sp, prefix=tag + "r", nsym=0), "ok"
    if k in (7, 8):  # same size, finals and successor sequence, different grouping
        return build("regroup", ["x" if k == 7 else "z"]).description(sp, prefix=tag + "r", nsym=0), "ok"
    d = build("p2choice", [[0, 1, 2], P1]).description(sp, prefix=tag + "r", nsym=0)
    x = sp.int(tag + "idx")
    sp.assume(b_or(x < 0, x >= 7))
    d["transition_list"][1][1] = ("y", x)
    return d, "bad"


NAMES = ["g1", "game_2b", "a_b_3"]


def _batch_jobs(tier, seed):
    jobs = []
    ids = range(6)
    for pair in itertools.permutations(ids, 2):
        if tier == "thorough" or any(p >= 3 for p in pair) or pair in ((0, 1), (1, 2)):
            jobs.append(dict(picks=list(pair), _cost=2))
    triples = list(itertools.permutations(ids, 3))
    if tier == "quick":
        triples = [t for t in triples if t[1] >= 3 and t[0] < 3 and t[2] < 3][:12] + [(3, 4, 0), (0, 4, 3), (5, 1, 4)]
    for t in triples:
        jobs.append(dict(picks=list(t), _cost=4))
    jobs.append(dict(picks=[0], _cost=1))
    jobs.append(dict(picks=[4], _cost=1))
    for extra in ([6], [6, 0], [0, 6, 1], [7, 8], [8, 7], [7, 3, 8], [9], [0, 9, 1], [10, 0], [1, 11], [12], [0, 12], [13], [13, 0], [14, 15], [15, 14], [14, 3, 15], [16], [17], [16, 17, 0]):
        jobs.append(dict(picks=extra, _cost=2))
    return jobs


def _alone(sp, desc, prune):
    # a freshly loaded copy of the modules: the reference must not share module-level state with the batch run
    from .pipe import LoggingStub
    rd = repo.load("reverse_dfs", alias="reverse_dfs_ref")
    t = repo.load("tad", overrides=dict(PROXY_BUILTINS, max=sym_max, min=sym_min), imports={"reverse_dfs": rd}, alias="tad_ref")
    t.logging = LoggingStub()
    with_math(t)
    t.logging.reset(400)
    try:
        return "ok", t.StochasticGame(prune_states=prune, **copy.deepcopy(desc)).solve()
    except ValueError as e:
        return "err", str(e)
    except SweepBudget as e:
        raise core.Inconclusive("reference solve did not stop")


@harness("batch.run_games", props=["C12", "C09"], jobs=_batch_jobs,
         covers=["fail_first", "fail_middle", "fail_last", "all_ok", "nosol", "malformed"],
         stubs=["logging (tad) -> sweep counter", "time.time native (total_time not compared)"],
         bounds="dictionaries of 1-3 games drawn from a menu of 18 (solvable templates with symbolic rewards, a no-solution "
                "game, two malformed games with a symbolic bad value) in every order (quick: all pairs with a failing game, 15 triples)",
         desc="real run_games: one pruned and one unpruned entry per game, in run order, whose strategies, rewards, probabilities, "
              "diagnostics and counts equal those of the game solved alone; a failing pruned solve yields the error message, its "
              "unpruned entry 'Game not solved', other games unaffected; caller's descriptions unchanged apart from prune_states")
def batch_run(sp, picks):
    cr = cr_mod()
    t = tad_pipe()
    games, kinds = {}, {}
    for pos, k in enumerate(picks):
        d, kind = _menu(sp, k, "g%d" % pos)
        games[NAMES[pos]] = d
        kinds[NAMES[pos]] = kind
    snap = copy.deepcopy(games)
    for n in snap:
        snap[n].pop("prune_states", None)
    ks = [kinds[n] for n in games]
    if all(k == "ok" for k in ks):
        sp.cover("all_ok")
    if ks[0] != "ok":
        sp.cover("fail_first")
    if len(ks) > 2 and ks[1] != "ok":
        sp.cover("fail_middle")
    if len(ks) > 1 and ks[-1] != "ok":
        sp.cover("fail_last")
    if "nosol" in ks:
        sp.cover("nosol")
    if "bad" in ks:
        sp.cover("malformed")
    t.logging.reset(400 * 2 * len(picks))
    try:
        out = cr.run_games(games)
    except SweepBudget as e:
        raise Violation("run_games: value iteration did not stop", sp.current_assignment())
    exp_keys = []
    for n in games:
        exp_keys += [n, n + "_no_prune"]
    sp.prove(list(out.keys()) == exp_keys, "result entries %s, expected %s" % (list(out.keys()), exp_keys))
    if len(picks) <= 2:
        # running the same dictionary again gives the same entries (whatever the first run left in the caller's dictionaries)
        t.logging.reset(400 * 2 * len(picks))
        again = cr.run_games(games)
        sp.prove(list(again.keys()) == exp_keys, "second run on the same dictionary gives entries %s" % list(again.keys()))
        for key in exp_keys:
            sp.prove(again[key]["msg"] == out[key]["msg"] and again[key]["final_strategies"] == out[key]["final_strategies"]
                     and again[key]["probabilities"] == out[key]["probabilities"], "second run on the same dictionary differs at %s" % key)
    for n, d in games.items():
        alone_p = _alone(sp, snap[n], True)
        alone_u = _alone(sp, snap[n], False)
        ep, eu = out[n], out[n + "_no_prune"]
        ntr = sum(len(x) for x in snap[n]["transition_list"])
        for e in (ep, eu):
            sp.prove(set(e.keys()) >= {"n_states", "n_transitions", "n_iterations_reach", "n_iterations_rew", "reachability_strategies",
                                       "final_strategies", "total_time", "msg", "rewards", "rew_min_reach", "probabilities",
                                       "prob_min_rew"}, "entry fields %s" % sorted(e.keys()))
            sp.prove(e["n_states"] == len(snap[n]["players"]) and e["n_transitions"] == ntr, "state/transition counts of %s" % n)
        pairs = [(ep, alone_p, "pruned")]
        if alone_p[0] == "ok":
            pairs.append((eu, alone_u, "unpruned"))
        else:
            sp.prove(ep["msg"] == "Error while solving the game: " + alone_p[1], "message of failing game %s is %r" % (n, ep["msg"]))
            sp.prove(eu["msg"] == "Game not solved", "unpruned entry of failing game %s says %r" % (n, eu["msg"]))
            for e in (ep, eu):
                sp.prove(e["final_strategies"] is None and e["reachability_strategies"] is None and e["rewards"] is None
                         and e["probabilities"] is None, "failing game %s has results" % n)
        for e, alone, mode in pairs:
            if alone[0] != "ok":
                continue
            res = alone[1]
            sp.prove(e["msg"] == "Game solved", "%s %s: message %r" % (n, mode, e["msg"]))
            sp.prove(e["final_strategies"] == res[0], "%s %s: final strategies differ from solving alone" % (n, mode))
            sp.prove(e["reachability_strategies"] == res[1], "%s %s: reachability strategies differ from solving alone" % (n, mode))
            sp.prove(e["probabilities"] == res[3], "%s %s: probabilities differ from solving alone" % (n, mode))
            sp.prove(e["n_iterations_reach"] == res[4] and e["n_iterations_rew"] == res[5], "%s %s: sweep counts differ" % (n, mode))
            for key, idx in (("rewards", 2), ("prob_min_rew", 6), ("rew_min_reach", 7)):
                sp.prove(len(e[key]) == len(res[idx]), "%s %s: %s length" % (n, mode, key))
                for a, b in zip(e[key], res[idx]):
                    sp.prove(sp.eq(a, b), "%s %s: %s differ from solving alone" % (n, mode, key))
        # caller's dictionaries
        d2 = {k: v for k, v in d.items() if k != "prune_states"}
        def same_item(x, y):
            if is_sym(x) or is_sym(y):
                return x is y
            if isinstance(x, (list, tuple)) and isinstance(y, (list, tuple)):
                return type(x) is type(y) and len(x) == len(y) and all(same_item(a, b) for a, b in zip(x, y))
            return type(x) is type(y) and x == y
        same = all(k in d2 and same_item(d2[k], snap[n][k]) for k in snap[n])
        sp.prove(same and set(d2) == set(snap[n]), "run_games changed the caller's description of %s" % n)


# ------------------------------------------------------------------------------------------ C16
class Token:
    """an opaque result value: the code can only format it and compare it"""
    n = 0

    def __init__(self, key):
        Token.n += 1
        self.key = key
        self.id = "<<%s#%d>>" % (key, Token.n)

    def __format__(self, spec):
        return self.id

    __str__ = __repr__ = lambda self: self.id

    def __eq__(self, other):
        if isinstance(other, Token):
            return bool(SymBool(z3.Bool("eq_%d_%d" % (id(self) % 100000, id(other) % 100000))))
        return False

    def __hash__(self):
        return id(self)


class _Unreadable:
    def __repr__(self):
        return "<text that does not read back as a Python value>"

    def __eq__(self, other):
        return False


def _read_back(text):
    import ast
    try:
        return getattr(ast, "literal_eval")(text)
    except (ValueError, SyntaxError, MemoryError, RecursionError):
        return _Unreadable()


def _blocks(lines):
    """the report as a list of blocks: a block starts with a separator line (a row of '=')"""
    blocks = []
    for ln in lines:
        if ln and set(ln) == {"="}:
            blocks.append([])
        elif not blocks:
            return None
        else:
            blocks[-1].append(ln)
    return blocks


def _documented_lines(sp, block, what):
    """the documented labelled lines of a block, each present exactly once and in the documented order
    (further lines a later version might add are ignored)"""
    labels = [f[0] for f in FIELDS]
    found = []
    for ln in block:
        if ":" not in ln:
            sp.prove(False, "%s: line without a label: %r" % (what, ln))
        lab = ln.split(":", 1)[0].strip().lower()
        if lab in labels:
            found.append((lab, ln))
    sp.prove([f[0] for f in found] == labels, "%s: documented lines %s, expected %s" % (what, [f[0] for f in found], labels))
    return [f[1] for f in found]


FIELDS = [("running example", None), ("message", "msg"), ("number of states", "n_states"),
          ("number of transitions", "n_transitions"), ("n iterations reach", "n_iterations_reach"),
          ("n iterations rew", "n_iterations_rew"), ("reachability strategies", "reachability_strategies"),
          ("final strategies", "final_strategies"), ("are equal", "=="), ("probabilities", "probabilities"),
          ("probabilities min rew", "prob_min_rew"), ("rewards", "rewards"), ("rewards min reach", "rew_min_reach"),
          ("total time", "total_time")]
KEYS = ["n_states", "n_transitions", "n_iterations_reach", "n_iterations_rew", "reachability_strategies", "final_strategies",
        "total_time", "msg", "rewards", "rew_min_reach", "probabilities", "prob_min_rew"]
PATHS = [("inputs/maze_copy.py", "maze_copy"), ("copy.py", "copy"), ("inputs/x_1.py", "x_1"), ("a/b/game_2b.v2.py", "game_2b"), ("plain.py", "plain"), ("noext", "noext"),
         ("./d.e/f_g.py", "f_g"), ("inputs/robot_1_w2_l2_r6_rb10_lb5_tb10_lt0.py", "robot_1_w2_l2_r6_rb10_lb5_tb10_lt0")]


@harness("report.save", props=["C16"], jobs=lambda tier, seed: [dict(nentries=k, path=p) for k in (0, 1, 2, 3) for p in range(len(PATHS))],
         covers=["equal", "not_equal"], stubs=["open -> in-memory file"],
         bounds="result dictionaries of 0..3 entries whose every value is an opaque token (parametric in the values); 8 input paths",
         assumes=["parametricity: the writer cannot inspect a token, so what holds for tokens holds for every value",
                  "repr/eval round trip of Python literals is a CPython guarantee (trusted)"],
         desc="real save_results_to_file: file outputs/<stem>.txt; one block per entry in order; the 14 labelled lines once each in "
              "the documented order, each carrying exactly the value stored under its key; the equality line prints the truth value "
              "of reachability == final strategies on both branches")
def report_save(sp, nentries, path):
    cr = cr_mod()
    FakeFile.store, FakeFile.opened = {}, []
    names = ["g1", "g1_no_prune", "a_b_3"][:nentries]
    results = {}
    for n in names:
        results[n] = {k: Token(k) for k in KEYS}
    # an earlier, longer report written in the same process must leave no trace in this one
    earlier = {n: {k: Token(k) for k in KEYS} for n in ("old_1", "old_1_no_prune", "old_2", "old_2_no_prune")}
    cr.save_results_to_file(earlier, PATHS[path][0])
    FakeFile.opened = []
    cr.save_results_to_file(results, PATHS[path][0])
    exp_name = "outputs/%s.txt" % PATHS[path][1]
    sp.prove(FakeFile.opened == [(exp_name, "w")], "files opened: %s, expected %s" % (FakeFile.opened, exp_name))
    text = FakeFile.store.get(exp_name, "")
    lines = text.split("\n")
    sp.prove(lines[-1] == "", "report does not end with a newline")
    lines = lines[:-1]
    blocks = _blocks(lines)
    sp.prove(blocks is not None and len(blocks) == nentries, "report has %s blocks for %d entries" % (None if blocks is None else len(blocks), nentries))
    for i, n in enumerate(names):
        blk = [None] + _documented_lines(sp, blocks[i], "block %d" % i)
        for (label, key), line in zip(FIELDS, blk[1:]):
            sp.prove(":" in line, "line without a label: %r" % line)
            lab, val = line.split(":", 1)
            sp.prove(lab.strip().lower() == label, "label %r where %r is documented" % (lab.strip(), label))
            val = val[1:] if val.startswith(" ") else val
            if key is None:
                sp.prove(val == n, "block %d is headed %r, expected %r" % (i, val, n))
            elif key == "==":
                sp.prove(val in ("True", "False"), "equality line prints %r" % val)
                sp.cover("equal" if val == "True" else "not_equal")
                sp.note("eq", val)
            else:
                sp.prove(val == results[n][key].id, "line %r carries %s, expected the value stored under %r" % (label, val, key))
        eqline = blk[1 + [f[0] for f in FIELDS].index("are equal")].split(":", 1)[1].strip()
        truth = results[n]["reachability_strategies"] == results[n]["final_strategies"]
        sp.prove(eqline == str(truth), "equality line %r but the strategies compare %r" % (eqline, truth))


@harness("report.equal_concrete", props=["C16"], jobs=lambda tier, seed: [{}], sentinel=True,
         bounds="concrete values incl. None, empty lists, long float vectors", stubs=["open -> in-memory file"],
         desc="SENTINEL (concrete): every line of a report written for concrete results parses back (ast.literal_eval) to the "
              "value stored, incl. None, [], nested lists and float vectors")
def report_concrete(sp):
    import ast
    cr = cr_mod()
    FakeFile.store, FakeFile.opened = {}, []
    vec = [0.1 * k / 7 for k in range(40)] + [1e-17, 123456789.123456789, 0.30000000000000004] + [k / 5003 for k in range(5000)]
    res = {"g_1": dict(n_states=8, n_transitions=12, n_iterations_reach=3, n_iterations_rew=4,
                       reachability_strategies=[["alfa"], None, ["x", "y"], []], final_strategies=[["alfa"], None, ["x"], []],
                       total_time=0.00123, msg="Game solved", rewards=vec, rew_min_reach=list(reversed(vec)), probabilities=[1, 0, 0.5],
                       prob_min_rew=[1.0, 0.0]),
           "g_1_no_prune": dict(n_states=8, n_transitions=12, n_iterations_reach=0, n_iterations_rew=0, reachability_strategies=None,
                                final_strategies=None, total_time=1e-05, msg="Game not solved", rewards=None, rew_min_reach=0,
                                probabilities=None, prob_min_rew=0)}
    cr.save_results_to_file(res, "inputs/some_file.py")
    lines = FakeFile.store["outputs/some_file.txt"].split("\n")[:-1]
    blocks = _blocks(lines)
    sp.prove(blocks is not None and len(blocks) == len(res), "report blocks")
    for i, (n, r) in enumerate(res.items()):
        blk = _documented_lines(sp, blocks[i], "block %d" % i)
        for (label, key), line in zip(FIELDS, blk):
            val = line.split(":", 1)[1][1:]
            if key in (None, "msg"):
                sp.prove(val == (n if key is None else r["msg"]), "text line %r" % line)
            elif key == "==":
                sp.prove(_read_back(val) == (r["reachability_strategies"] == r["final_strategies"]), "equality line")
            else:
                sp.prove(_read_back(val) == r[key] and repr(_read_back(val)) == repr(r[key]), "line %r does not read back" % label)


class _Args:
    pass


def _main_jobs(tier, seed):
    return [dict(save=s, path=p) for s in (True, False) for p in (0, 2, 3)]


@harness("report.main", props=["C16"], jobs=_main_jobs, covers=["saved", "not_saved"],
         stubs=["init_parser -> fixed arguments", "open -> in-memory file", "run_games / save_results_to_file -> recorders"],
         bounds="save flag on/off x 2 input paths", desc="real main(): reads the file named by -f with the real reader, runs the games read, "
         "saves the results of that run under that file's name iff -s was given")
def report_main(sp, save, path):
    cr = repo.load("conditionalrewards", overrides={"open": FakeFile},
                   imports={"tad": tad_pipe(), "reverse_dfs": repo.std().reverse_dfs}, alias="conditionalrewards_main")
    FakeFile.store, FakeFile.opened = {PATHS[path][0]: "# comment\n\n{'g_a': {'x': [1, (0.5, 2)]}, 'g_b': 2}\n"}, []
    a = _Args()
    a.file, a.log_level, a.save_results = PATHS[path][0], None, save
    calls = []

    class P:
        def parse_args(self):
            return a
    cr.init_parser = lambda: P()
    results = {"tok": Token("results")}
    cr.run_games = lambda d: (calls.append(("run", d)), results)[1]
    cr.save_results_to_file = lambda r, f: calls.append(("save", r, f))
    cr.main()
    sp.prove(FakeFile.opened == [(PATHS[path][0], "r")], "main() opened %s" % FakeFile.opened)
    sp.prove(calls[0] == ("run", {"g_a": {"x": [1, (0.5, 2)]}, "g_b": 2}), "run_games did not receive the games the file denotes")
    if save:
        sp.cover("saved")
        sp.prove(len(calls) == 2 and calls[1][0] == "save" and calls[1][1] is results and calls[1][2] == PATHS[path][0],
                 "results not saved under the input file's name")
    else:
        sp.cover("not_saved")
        sp.prove(len(calls) == 1, "results saved although -s was not given")


@harness("report.reader", props=["C16", "C11"], jobs=lambda tier, seed: [dict(k=k) for k in range(10)],
         stubs=["open -> in-memory file"], bounds="menu of 10 file contents (dicts incl. non-ASCII names and expressions using builtins; non-dicts)",
         desc="real read_dict_from_file: returns the dictionary the text denotes; any other content raises ValueError")
def report_reader(sp, k):
    cr = cr_mod()
    menu = [("{}", {}), ("# c\n{'a': [1, (0.5, 2)], 'b': None}\n", {"a": [1, (0.5, 2)], "b": None}), ("{'x': {'y': 1}}", {"x": {"y": 1}}),
            ("{'juego_se\u00f1al_1': {'players': ['\u03b1', '\u03b2']}}", {"juego_se\u00f1al_1": {"players": ["\u03b1", "\u03b2"]}}),
            ("{'g': {'rewards': [0] * 3 + [k % 2 for k in range(4)], 'n': len('abc'), 'p': 1 / 4}}", {"g": {"rewards": [0, 0, 0, 0, 1, 0, 1], "n": 3, "p": 0.25}}),
            ("[1, 2]", ValueError), ("3", ValueError), ("'s'", ValueError), ("None", ValueError), ("{1, 2}", ValueError)]
    text, exp = menu[k]
    FakeFile.store, FakeFile.opened = {"f.py": text}, []
    try:
        got = cr.read_dict_from_file("f.py")
    except ValueError:
        sp.prove(exp is ValueError, "ValueError on a file that denotes a dictionary")
        return
    sp.prove(exp is not ValueError and got == exp and type(got) is dict, "reader returned %r for %r" % (got, text))


@harness("report.end_to_end", props=["C16", "C12"], jobs=lambda tier, seed: [dict(order=o) for o in range(3)], sentinel=True,
         covers=["solved_entry", "failed_entry"], stubs=["open -> in-memory file", "logging (tad) -> sweep counter"],
         bounds="CONCRETE: three small dictionaries mixing solvable, no-solution and malformed games in different orders",
         desc="CONCRETE end-to-end run (not a solver verdict): real run_games -> real save_results_to_file: every line of every block "
              "reads back to the value run_games produced for that entry; the equality line is the comparison of the two printed "
              "strategy lists, also for entries that were not solved")
def report_end_to_end(sp, order):
    import ast
    cr = cr_mod()
    t = tad_pipe()
    FakeFile.store, FakeFile.opened = {}, []
    fig = build("fig55", [0.5, 0.75])
    ok = dict(rewards=[1 if r == G.SYM else r for r in fig.rewards], players=fig.players, transition_list=fig.tl, final_states=fig.finals)
    ns = build("nosol", ["forced"])
    nosol = dict(rewards=[1 if r == G.SYM else r for r in ns.rewards], players=ns.players, transition_list=ns.tl, final_states=ns.finals)
    bad = copy.deepcopy(ok)
    bad["rewards"][2] = -1
    games = [{"g_ok": ok, "g_nosol": nosol, "g_bad": bad}, {"g_bad": bad, "g_ok": ok}, {"g_nosol": nosol, "g_ok_2": ok, "g_bad": bad}][order]
    games = copy.deepcopy(games)
    t.logging.reset(5000)
    res = cr.run_games(games)
    cr.save_results_to_file(res, "inputs/e2e_%d.py" % order)
    lines = FakeFile.store["outputs/e2e_%d.txt" % order].split("\n")
    sp.prove(lines[-1] == "", "report does not end with a newline")
    blocks = _blocks(lines[:-1])
    sp.prove(blocks is not None and len(blocks) == len(res), "report has %s blocks for %d entries" % (None if blocks is None else len(blocks), len(res)))
    for i, (n, r) in enumerate(res.items()):
        blk = _documented_lines(sp, blocks[i], "block %s" % n)
        vals = {}
        for (label, key), line in zip(FIELDS, blk):
            sp.prove(line.split(":", 1)[0].strip().lower() == label, "label %r where %r is documented" % (line.split(":", 1)[0].strip(), label))
            vals[key] = line.split(":", 1)[1][1:]
        sp.prove(vals[None] == n and vals["msg"] == r["msg"], "header/message of block %d" % i)
        for key in KEYS:
            if key in ("msg", "total_time"):
                continue
            sp.prove(_read_back(vals[key]) == r[key], "block %s: line for %r reads %s, run_games produced %r" % (n, key, vals[key], r[key]))
        sp.prove(_read_back(vals["=="]) == (_read_back(vals["reachability_strategies"]) == _read_back(vals["final_strategies"])),
                 "block %s: equality line says %s but the two printed strategy lists %s" % (
                     n, vals["=="], "are equal" if vals["reachability_strategies"] == vals["final_strategies"] else "differ"))
        sp.cover("solved_entry" if r["msg"] == "Game solved" else "failed_entry")
