"""C03 (and C05 inclusion, C06 no-stray-exception): conditioning lemmas on the real
Solver.prune_reachability / prune_stochastich_game / prune_states."""
import itertools

from symex.runner import harness
from symex.core import SymBool
from .common import *


def _p1_jobs(tier, seed):
    jobs = []
    ks = [1, 2, 3] if tier == "quick" else [1, 2, 3, 4]
    for K in ks:
        for kind in (P1, PR):
            if K <= 2:
                jobs.append(dict(K=K, kind=kind, _cost=K))
            else:
                for s0 in range(3):
                    jobs.append(dict(K=K, kind=kind, s0=s0, _cost=10 ** (K - 2)))
    # repeated action labels on the Player 1 focus node (two transitions may share a label)
    for K in ([2] if tier == "quick" else [2, 3]):
        for s0 in range(3):
            jobs.append(dict(K=K, kind=P1, s0=s0, dup_labels=True, _cost=10 ** (K - 2)))
    return jobs


@harness("c03.focus", props=["C03", "C05"], jobs=_p1_jobs,
         covers=["dead0", "dead1", "dead2", "all_dead", "dead_adjacent", "dead_separated",
                 "dead_first", "dead_last", "dup_target", "self_loop", "kind_P1", "kind_PR", "focus_final", "zero_prob_dead"],
         bounds="focus node with K<=4 (quick K<=3) transitions in an arbitrary game: successor indices: itself, a Player 2 neighbour, or any of K "
                "interchangeable neighbours (all coincidence patterns); all reach probabilities in [0,1]; all transition "
                "probabilities >0 summing to 1; P1 labels distinct or drawn from a 2-letter alphabet",
         assumes=["locality: pruning reads other states only through the node's own successors (state list has K+2 states)"],
         desc="real prune_reachability + prune_stochastich_game on an arbitrary "
              "Player 1 / probabilistic node: exactly the dead transitions go, survivors keep order and carry p/sum(alive)")
def c03_focus(sp, K, kind, s0=None, dup_labels=False):
    t = tadm()
    n = K + 2
    pidx = K + 1                     # the Player 2 neighbour
    # successor indices up to renaming of the interchangeable neighbours 1..K:
    # 0 = the node itself, pidx = the Player 2 neighbour, a new neighbour gets the next unused index
    succ = []
    used = 0
    for i in range(K):
        opts = [0, pidx] + list(range(1, min(used + 1, K) + 1))
        if i == 0 and s0 is not None:
            c = opts[s0]
        else:
            c = opts[sp.choice("succ%d" % i, len(opts))]
        succ.append(c)
        if c != pidx:
            used = max(used, c)
    v = [sp.real("v%d" % i, 0, 1) for i in range(n)]
    if kind == P1:
        if dup_labels:
            labels = ["ab"[sp.choice("lab%d" % i, 2)] for i in range(K)]
        else:
            labels = ["a%d" % i for i in range(K)]
        orig = [(labels[i], succ[i]) for i in range(K)]
    else:
        # transition probabilities >= 0 summing to 1 (a probability-0 transition is legal input)
        ps = [sp.real("p%d" % i, 0, None) for i in range(K)]
        sp.assume(sp.eq(vsum(ps), 1))
        orig = [(ps[i], succ[i]) for i in range(K)]
    focus_list = list(orig)
    # the node may itself be a (non-absorbing) final state
    is_final = sp.flag("focus_is_final") if K <= 2 else False
    states = [mk_node(kind, 0, 0, focus_list, n, final=is_final)]
    if is_final:
        sp.cover("focus_final")
    for i in range(1, K + 1):
        states.append(mk_node(PR, i, 0, [(1, i)], n))
    p2_orig = [("x", 0), ("y", pidx)]
    states.append(mk_node(P2, pidx, 0, list(p2_orig), n))
    for i in range(n):
        states[i].reach_probability = v[i]
    solver = t.Solver(state_list=states, threshold=10 ** (-6))
    strats = [None] * n
    strats[pidx] = ["x", "y"]
    if kind == P1:
        # the reported reachability strategy of the focus node: an arbitrary subset of its labels
        # (what the extraction returns is decided by the C04 lemmas; any subset is covered here)
        strats[0] = [l for l in sorted(set(labels)) if sp.flag("best_" + l)]
    best = strats[0]
    solver.prune_reachability(strats)
    solver.prune_stochastich_game()
    got = states[0].next_states
    # ---- reference, written from the property statement
    dead = [bool(v[succ[i]] == 0) for i in range(K)]          # case split on dead/alive per target
    permitted = [True] * K if kind == PR else [labels[i] in best for i in range(K)]
    alive_idx = [i for i in range(K) if not dead[i] and permitted[i]]
    nd = sum(dead)
    sp.cover("kind_P1" if kind == P1 else "kind_PR")
    sp.cover("dead%d" % nd if nd <= 2 else "dead3+")
    if nd == K:
        sp.cover("all_dead")
    di = [i for i in range(K) if dead[i]]
    if any(b - a == 1 for a, b in zip(di, di[1:])):
        sp.cover("dead_adjacent")
    if any(b - a > 1 for a, b in zip(di, di[1:])):
        sp.cover("dead_separated")
    if di and di[0] == 0:
        sp.cover("dead_first")
    if di and di[-1] == K - 1:
        sp.cover("dead_last")
    if len(set(succ)) < K:
        sp.cover("dup_target")
    if 0 in succ:
        sp.cover("self_loop")
    sp.note("succ", succ)
    sp.note("dead", dead)
    # (i) no surviving transition into a state of probability 0
    for tr in got:
        sp.prove(b_not(v[tr[1]] == 0), "a transition into a probability-0 state survived")
    # (ii) survivors = the permitted live transitions, in their original order
    sp.prove(len(got) == len(alive_idx), "survivor count: kept %d, expected %d (dead=%s)" % (len(got), len(alive_idx), dead))
    for tr, i in zip(got, alive_idx):
        sp.prove(tr[1] == succ[i], "survivor order/target")
        if kind == P1:
            sp.prove(tr[0] == labels[i], "survivor label")
    if kind == PR and any(bool(ps[i] == 0) for i in range(K) if dead[i]):
        sp.cover("zero_prob_dead")
    # (iii) renormalisation by the surviving mass
    if kind == PR and alive_idx:
        mass = vsum([ps[i] for i in alive_idx])
        # (when the survivors carry no mass at all there is nothing to redistribute: only (i), (ii) apply)
        for tr, i in zip(got, alive_idx):
            sp.prove(b_or(sp.eq(mass, 0), sp.eq(tr[0] * mass, ps[i])), "surviving probability is not p/sum(alive)")
        sp.prove(b_or(sp.eq(mass, 0), sp.eq(vsum([tr[0] for tr in got]), 1)), "surviving probabilities do not sum to 1")
    # (iv) a Player 2 state that is still pointed at from the initial state keeps everything
    if any(tr[1] == pidx for tr in got):
        sp.prove(states[pidx].next_states == p2_orig, "Player 2 neighbour lost a transition")
    # (C05 inclusion) what is left at a Player 1 node is within the reported reachability strategy
    if kind == P1:
        for tr in got:
            sp.prove(tr[0] in best, "transition outside the reachability strategy survived")
        fin = states[0].get_best_strategies_total_rewards(states, 6)
        sp.prove(set(fin) <= set(best), "final strategy not a subset of the reachability strategy")


def _ps_jobs(tier, seed):
    ns = [2, 3] if tier == "quick" else [2, 3, 4]
    jobs = []
    for n in ns:
        if n <= 2 or (n == 3 and tier == "thorough"):
            kinds = list(itertools.product((P1, P2, PR), repeat=n))
        else:
            # the code distinguishes only Player 1 from the rest: alternate P2 / PR for the rest
            kinds = [[P1 if b else (P2, PR)[(i + sum(bs)) % 2] for i, b in enumerate(bs)]
                     for bs in itertools.product((0, 1), repeat=n)]
        for ks in kinds:
            jobs.append(dict(n=n, kinds=list(ks), maxdeg=(2 if n <= 3 else 1), _cost=3 ** n))
    return jobs


@harness("c03.prune_states", props=["C03"], jobs=_ps_jobs,
         covers=["cleared", "kept", "chain_cleared"],
         bounds="n<=3 states with 0..2 transitions each to any state (quick: kinds up to the P1 / non-P1 distinction for n=3); "
                "thorough adds n=4 with 0..1 transitions each",
         desc="real Solver.prune_states on every small skeleton: a non-Player-1 state loses its transitions iff, "
              "after transitively clearing, nothing points at it and it is not state 0; terminates")
def c03_prune_states(sp, n, kinds, maxdeg=2):
    t = tadm()
    tl = []
    for s in range(n):
        deg = sp.choice("deg%d" % s, maxdeg + 1)
        tl.append([sp.choice("t%d_%d" % (s, k), n) for k in range(deg)])
    states = []
    for s in range(n):
        if kinds[s] == PR:
            ns = [(1.0 / len(tl[s]), x) for x in tl[s]]
        else:
            ns = [("a%d" % k, x) for k, x in enumerate(tl[s])]
        states.append(mk_node(kinds[s], s, 0, ns, n))
    before = [list(st.next_states) for st in states]
    solver = t.Solver(state_list=CutList(states, budget=4 * (n + 2)), threshold=10 ** (-6))
    try:
        solver.prune_states()
    except PathCut:
        sp.prove(False, "prune_states did not terminate within %d rounds" % (2 * (n + 2)))
    # reference: greatest fixpoint of "cleared" = non-P1 states (other than 0) nobody uncleared points at
    cur = [list(x) for x in tl]
    changed = True
    rounds = 0
    while changed:
        changed = False
        rounds += 1
        pointed = {0}
        for s in range(n):
            pointed.update(cur[s])
        for s in range(n):
            if kinds[s] != P1 and s not in pointed and cur[s]:
                cur[s] = []
                changed = True
    if rounds > 2:
        sp.cover("chain_cleared")
    for s in range(n):
        got = [x[1] for x in states[s].next_states]
        if cur[s] != tl[s]:
            sp.cover("cleared")
        else:
            sp.cover("kept")
        sp.prove(got == cur[s], "prune_states: state %d has %s, expected %s (tl=%s kinds=%s)" % (s, got, cur[s], tl, kinds))
        if got:
            sp.prove(states[s].next_states == before[s], "prune_states changed a kept transition list")
