"""C15 (parameter checks, main() ordering), C17 (file names) on the real roberta_generator
/ stochastic_game_from_roborta_board: exact mode for integers, IEEE mode for the probabilities."""
import itertools

import z3

from symex import repo, fp as F
from symex.core import SymBool, SymInt, to_int
from symex.runner import harness
from .common import *


class Recorder:
    def __init__(self):
        self.calls = []

    def fn(self, name, ret=None):
        def f(*a, **k):
            self.calls.append((name, a, k))
            return ret() if callable(ret) else ret
        return f


def load_gen(overrides):
    return repo.load("roberta_generator", overrides=overrides, alias="roberta_generator_stub")


class Args:
    pass


# ------------------------------------------------------------------ C17 N1
@harness("gen.prob_to_str", props=["C17"], jobs=lambda tier, seed: [dict(q=q, _qtimeout_ms=300000) for q in ("whole", "inject", "mono", "range")],
         covers=[], stubs=["int -> IEEE truncation/ValueError-on-NaN model", "str -> numeric token", "round -> IEEE half-even model"],
         bounds="all doubles (FP mode, z3 Float64): k any integral double in [1,99]; p,q any doubles in (0,1)",
         desc="real prob_to_str in IEEE mode: fl(k/100) renders k for every k=1..99; different whole percents render "
              "differently; rendering is monotone and within 0..100 on (0,1)")
def prob_to_str_fp(sp, q):
    gen = load_gen({"int": F.fp_int, "str": F.tok_str, "round": F.fp_round})
    hundred = z3.FPVal(100.0, F.F64)

    def whole(name):
        k = F.fp(name)
        if sp.mode == "native":
            return k, k / 100
        sp.add(z3.fpRoundToIntegral(F.RNE, k.t) == k.t, z3.fpGEQ(k.t, z3.FPVal(1.0, F.F64)), z3.fpLEQ(k.t, z3.FPVal(99.0, F.F64)))
        return k, F.SymFP(z3.fpDiv(F.RNE, k.t, hundred))

    def render(p):
        out = gen.prob_to_str(p)
        if isinstance(out, str):
            return float(out)
        assert isinstance(out, F.Tok) and len(out.parts) == 1 and isinstance(out.parts[0], F.NumTok), out
        return F.SymFP(out.parts[0].value.t)
    if q == "whole":
        k, p = whole("k")
        sp.prove(render(p) == k, "a probability k/100 is not rendered as k")
    elif q == "inject":
        k1, p1 = whole("k1")
        k2, p2 = whole("k2")
        sp.assume(k1 != k2)
        r1, r2 = render(p1), render(p2)
        # decomposed: each rendering is exact (two cheap FP queries), hence they differ
        sp.prove(r1 == k1, "two different whole percents can render the same (k1/100 is not rendered as k1)")
        sp.prove(r2 == k2, "two different whole percents can render the same (k2/100 is not rendered as k2)")
        sp.add(r1 == k1, r2 == k2)
        sp.prove(r1 != r2, "two different whole percents render the same")
    else:
        p, p2 = F.fp("p"), F.fp("p2")
        sp.assume(b_and(p > 0, p < 1, p2 > 0, p2 < 1, p <= p2))
        r1, r2 = render(p), render(p2)
        if q == "mono":
            sp.prove(r1 <= r2, "rendering is not monotone")
        else:
            sp.prove(b_and(r1 >= 0, r1 <= 100), "rendered percentage outside 0..100")


# ------------------------------------------------------------------ C15 B1 (exact integers, IEEE probabilities)
@harness("gen.check_input", props=["C15"], jobs=lambda tier, seed: [{}],
         covers=["accepted", "refused"],
         bounds="seed, width, length, max_reward any integers; the four probabilities any reals (exact mode)",
         desc="real check_input: raises ValueError iff seed<0 or width<=0 or length<=0 or max_reward<=0 or some probability "
              "is not strictly inside (0,1); every boundary decided by the solver")
def check_input_exact(sp):
    gen = repo.std().gen
    seed, width, length, maxr = (sp.int(n) for n in ("seed", "width", "length", "max_reward"))
    ps = [sp.real(n) for n in ("rb", "lb", "lt", "tb")]
    bad = b_or(seed < 0, width <= 0, length <= 0, maxr <= 0, *[b_or(p <= 0, p >= 1) for p in ps])
    try:
        gen.check_input(seed, width, length, ps[0], ps[1], ps[2], ps[3], maxr)
    except ValueError:
        sp.cover("refused")
        sp.prove(bad, "a parameter set inside the documented ranges was refused")
        return
    sp.cover("accepted")
    sp.prove(b_not(bad), "a parameter set outside the documented ranges was accepted")


def _main_jobs(tier, seed):
    return [dict(force_down=f, _qtimeout_ms=600000) for f in (False, True)]


@harness("gen.main", props=["C15", "C17", "C11"], jobs=_main_jobs,
         covers=["accepted", "refused", "nan"],
         stubs=["init_parser -> parse_args() returns symbolic values", "gen_rnd_board, write_robots -> recorders",
                "open -> must not be called", "int/str/round -> IEEE + token models"],
         bounds="seed, width, length, max_reward any integers; four probabilities any doubles incl. NaN, +-inf (FP mode)",
         desc="real main(): invalid parameters end in ValueError with nothing generated or written; valid ones reach "
              "gen_rnd_board and write_robots with exactly the requested values, and the file name is "
              "inputs/robot_<seed>_w<width>_l<length>_r<max_reward>_rb<pct>_lb<pct>_tb<pct>_lt<pct>[_force_down].py "
              "with each field rendering that parameter")
def gen_main(sp, force_down):
    rec = Recorder()
    a = Args()
    a.seed, a.width, a.length, a.max_reward = (sp.int(n) for n in ("seed", "width", "length", "max_reward"))
    a.prob_robot_break, a.prob_light_break, a.prob_tile_break, a.prob_loose_tile = (F.fp(n) for n in ("rb", "lb", "tb", "lt"))
    a.force_down = force_down

    class Parser:
        def parse_args(self):
            return a
    board = ("MOVES", "REWARDS", "LOOSE")
    gen = load_gen({"int": F.fp_int, "str": F.tok_str, "round": F.fp_round,
                    "open": rec.fn("open")})
    gen.init_parser = lambda: Parser()
    gen.gen_rnd_board = rec.fn("gen_rnd_board", board)
    gen.write_robots = rec.fn("write_robots")
    probs4 = [a.prob_robot_break, a.prob_light_break, a.prob_tile_break, a.prob_loose_tile]
    valid = b_and(a.seed >= 0, a.width > 0, a.length > 0, a.max_reward > 0, *[b_and(p > 0, p < 1) for p in probs4])
    if any(bool(p != p) for p in probs4):
        sp.cover("nan")
    # an earlier run in the same process (other parameters) must leave no trace in this one's file name / calls
    first = Args()
    first.seed, first.width, first.length, first.max_reward = 3, 4, 2, 5
    first.prob_robot_break, first.prob_light_break, first.prob_tile_break, first.prob_loose_tile = 0.2, 0.05, 0.15, 0.4
    first.force_down = not force_down
    cur_args = [first]

    class Parser2:
        def parse_args(self):
            return cur_args[0]
    gen.init_parser = lambda: Parser2()
    gen.main()
    del rec.calls[:]
    cur_args[0] = a
    try:
        gen.main()
    except ValueError:
        sp.cover("refused")
        sp.prove(b_not(valid), "valid parameters refused")
        sp.prove(not [c for c in rec.calls if c[0] in ("open", "write_robots")], "something was written although the parameters were refused")
        return
    sp.cover("accepted")
    sp.prove(valid, "parameters outside the documented ranges were accepted and a file was written")
    names = [c[0] for c in rec.calls]
    sp.prove(names == ["gen_rnd_board", "write_robots"], "main() call sequence %s" % names)
    g = rec.calls[0][1]
    sp.prove(len(g) == 6 and not rec.calls[0][2], "gen_rnd_board arity")
    sp.prove(b_and(g[0] == a.seed, g[1] == a.length, g[2] == a.width, g[3] == a.prob_loose_tile, g[4] == a.max_reward),
             "gen_rnd_board received other values than requested (seed, length, width, prob_loose_tile, max_reward)")
    sp.prove(g[5] is force_down, "force_down not passed on")
    w = rec.calls[1][1]
    sp.prove(len(w) == 9, "write_robots arity")
    sp.prove(b_and(w[1] == a.length, w[2] == a.width, w[6] == a.prob_tile_break, w[7] == a.prob_robot_break,
                   w[8] == a.prob_light_break),
             "write_robots received other values than requested (length, width, tile/robot/light break probabilities)")
    sp.prove(w[3] == "MOVES" and w[4] == "REWARDS" and w[5] == "LOOSE", "write_robots did not receive the generated board")
    _check_name(sp, gen, w[0], "inputs/robot_",
                [("", a.seed), ("_w", a.width), ("_l", a.length), ("_r", a.max_reward)],
                [("_rb", a.prob_robot_break), ("_lb", a.prob_light_break), ("_tb", a.prob_tile_break), ("_lt", a.prob_loose_tile)],
                ("_force_down" if force_down else "") + ".py")


def _check_name(sp, gen, name, head, int_fields, pct_fields, tail):
    sp.prove(isinstance(name, F.Tok), "file name is not assembled from the parameters")
    parts = name.parts
    exp_lits = [head + int_fields[0][0]] + [f[0] for f in int_fields[1:]] + [f[0] for f in pct_fields] + [tail]
    lits = [p for p in parts if isinstance(p, str)]
    nums = [p for p in parts if isinstance(p, F.NumTok)]
    sp.prove(lits == exp_lits, "file name literal pieces %s, expected %s" % (lits, exp_lits))
    sp.prove(len(parts) == 2 * len(nums) + 1 and all(isinstance(p, str) for p in parts[0::2]),
             "file name does not alternate labels and numbers")
    # unique decodability: every number is followed by a piece that starts with a non-digit, non-sign character
    for p in parts[2::2]:
        sp.prove(p[0] not in "0123456789+-", "a numeric field is followed by %r" % p[:1])
    for (lab, val), tok in zip(int_fields, nums):
        sp.prove(isinstance(tok.value, SymInt) and True, "field %s is not an integer rendering" % lab)
        sp.prove(tok.value == val, "field after %r does not render that parameter" % lab)
    for (lab, val), tok in zip(pct_fields, nums[len(int_fields):]):
        ref = gen.prob_to_str(val)
        sp.prove(isinstance(tok.value, F.SymFPInt), "field %s is not a percentage rendering" % lab)
        sp.prove(F.SymFP(tok.value.t) == F.SymFP(ref.parts[0].value.t), "field after %r does not render that probability" % lab)


@harness("gen.manual_name", props=["C17", "C11"], jobs=lambda tier, seed: [dict(fd=f) for f in (False, True)],
         covers=[], stubs=["write_robots -> recorder", "int/str/round -> IEEE + token models"],
         bounds="manual entry point: boards of any size (symbolic dimensions via a list stub), any doubles in (0,1)",
         desc="real create_sg_from_board: file name inputs/manual_robot_w<width>_l<length>_r<max reward>_rb<pct>_lb<pct>_tb<pct>_"
              "[force_down].py with each field rendering that parameter; write_robots receives the board and probabilities")
def manual_name(sp, fd):
    rec = Recorder()
    gen = load_gen({"int": F.fp_int, "str": F.tok_str, "round": F.fp_round})
    gen.write_robots = rec.fn("write_robots")
    board = repo.load("stochastic_game_from_roborta_board", overrides={"str": F.tok_str, "len": _sym_len},
                      imports={"roberta_generator": gen}, alias="board_stub")
    length, width = sp.int("length", 1, None), sp.int("width", 1, None)
    maxr = sp.int("maxr", 0, None)
    moves = SymBoard(length, width, 3 if fd else 2)
    rewards = SymBoard(length, width, maxr)
    loose = SymBoard(length, width, 1)
    rb, lb, tb = (F.fp(n) for n in ("rb", "lb", "tb"))
    sp.assume(b_and(*[b_and(p > 0, p < 1) for p in (rb, lb, tb)]))
    board.get_max_from_matrix = lambda m: m.maxv
    board.create_sg_from_board(moves, rewards, loose, rb, lb, tb)
    sp.prove(len(rec.calls) == 1, "write_robots called once")
    w = rec.calls[0][1]
    sp.prove(b_and(w[1] == length, w[2] == width, w[6] == tb, w[7] == rb, w[8] == lb) if True else True,
             "write_robots received other values than given")
    sp.prove(w[3] is moves and w[4] is rewards and w[5] is loose, "write_robots did not receive the given board")
    _check_name(sp, gen, w[0], "inputs/manual_robot_",
                [("w", width), ("_l", length), ("_r", maxr)],
                [("_rb", rb), ("_lb", lb), ("_tb", tb)],
                ("_force_down" if fd else "_") + ".py")


class SymBoard:
    """a board of symbolic dimensions: len() and [0] are all the manual entry point reads"""

    def __init__(self, length, width, maxv):
        self.length, self.width, self.maxv = length, width, maxv

    def __getitem__(self, i):
        return _Row(self.width)


class _Row:
    def __init__(self, width):
        self.width = width


def _sym_len(x):
    if isinstance(x, SymBoard):
        return x.length
    if isinstance(x, _Row):
        return x.width
    return len(x)


# ------------------------------------------------------------------ C15 B3: random boards under PRNG / math contracts
import math as _math
import random as _random

from symex.core import SymReal, to_real, Space

LN = z3.Function("ln", z3.RealSort(), z3.RealSort())
RND = z3.Function("rnd", z3.IntSort(), z3.IntSort(), z3.RealSort())      # rnd(seed, k) in (0,1)
CHO = z3.Function("cho", z3.IntSort(), z3.IntSort(), z3.IntSort())
RRG = z3.Function("rrg", z3.IntSort(), z3.IntSort(), z3.IntSort())


class MathStub:
    """math.log: strictly monotone uninterpreted function with ln 1 = 0 (instantiated on the arguments seen);
    math.floor: an integer k with k <= x < k+1"""

    def __init__(self, sp):
        self.sp = sp
        self.seen = []
        self.nfloor = 0

    def log(self, x):
        if self.sp.mode == "native":
            return _math.log(x)
        sp = self.sp
        t = z3.simplify(to_real(x))
        sp.add(LN(z3.RealVal(1)) == 0)
        for t0 in self.seen + [z3.RealVal(1)]:
            sp.add(z3.Implies(t0 < t, LN(t0) < LN(t)), z3.Implies(t < t0, LN(t) < LN(t0)), z3.Implies(t == t0, LN(t) == LN(t0)))
        self.seen.append(t)
        return SymReal(LN(t))

    def power_of_two(self, m):
        """ln(2^-m) = -m ln 2, ln 2 > 0 (the one algebraic fact about log the reward formula relies on)"""
        if self.sp.mode == "native":
            return
        x = core.rat(Fraction(1, 2 ** m))
        self.sp.add(LN(x) == -m * LN(z3.RealVal(2)), LN(z3.RealVal(2)) > 0)
        self.seen += [x, z3.RealVal(2)]

    def floor(self, x):
        if self.sp.mode == "native":
            return _math.floor(x)
        k = z3.Int("floor!%d" % self.nfloor)
        self.nfloor += 1
        self.sp.add(z3.ToReal(k) <= to_real(x), to_real(x) < z3.ToReal(k) + 1)
        # same argument -> same value
        return SymInt(k)


from fractions import Fraction


class RandomStub:
    """the PRNG contract: seed(s) restarts a stream that is a function of (s, position); random() in (0,1);
    choices(pop, w, k): k members of pop (weights positive); randrange(a,b) in [a,b)"""

    def __init__(self, sp):
        self.sp = sp
        self.seedv = None
        self.k = 0
        self.draws = []
        self.native = None
        self.total = 0          # calls over the whole harness run: names the recorded stream values
        self.replay = sp.mode == "native"

    def _recorded(self, stem):
        """native replay: the value the solver chose for this call of the counterexample's stream, if recorded"""
        name = "%s%d" % (stem, self.total)
        self.total += 1
        if self.replay and name in self.sp.assignment:
            return Fraction(self.sp.assignment[name])
        return None

    def seed(self, s):
        self.k = 0
        self.draws = []
        if self.sp.mode == "native":
            self.native = _random.Random(s)
            self.seedv = s
        else:
            self.seedv = to_int(s)

    def _next(self):
        if self.seedv is None:
            raise AssertionError("random source consulted before seeding")
        k = self.k
        self.k += 1
        return z3.IntVal(k)

    def random(self):
        if self.sp.mode == "native":
            if self.native is None:
                raise AssertionError("random source consulted before seeding")
            x = self.native.random()
            r = self._recorded("draw")
            if r is not None:
                x = float(r)
            self.draws.append(x)
            return x
        t = RND(self.seedv, self._next())
        x = self.sp.real("draw%d" % self.total, 0, 1, lo_open=True, hi_open=True)   # declared so that a counterexample records it
        self.total += 1
        self.sp.add(x.t == t)
        self.draws.append(x)
        return x

    def choices(self, pop, weights=None, k=1):
        if weights is not None:
            assert len(weights) == len(pop) and all(w > 0 for w in weights), "choices weights"
        if self.sp.mode == "native":
            if self.native is None:
                raise AssertionError("random source consulted before seeding")
            out = self.native.choices(pop, weights, k=k)
            for i in range(k):
                r = self._recorded("cho")
                if r is not None:
                    out[i] = pop[int(r)]
            return out
        out = []
        for _ in range(int(k)):
            c = CHO(self.seedv, self._next())
            v = self.sp.int("cho%d" % self.total, 0, len(pop) - 1)
            self.total += 1
            self.sp.add(v.t == c)
            out.append(pop[int(v)])
        return out

    def randrange(self, a, b):
        if self.sp.mode == "native":
            if self.native is None:
                raise AssertionError("random source consulted before seeding")
            x = self.native.randrange(a, b)
            r = self._recorded("rrg")
            return int(r) if r is not None else x
        c = RRG(self.seedv, self._next())
        v = self.sp.int("rrg%d" % self.total)
        self.total += 1
        self.sp.add(v.t == c, c >= to_int(a), c < to_int(b))
        return v


def _rnd_jobs(tier, seed):
    jobs = []
    shapes = [(1, 1), (1, 2), (2, 1)] if tier == "quick" else [(1, 1), (1, 2), (2, 1), (1, 3), (2, 2)]
    for (L, W) in shapes:
        for m in ([1, 2, 6] if tier == "quick" else [1, 2, 3, 4, 6, 8]):
            for fd in (False, True):
                if L * W > 2 and m > 2:
                    continue
                if L * W > 3 and fd:
                    continue        # 2x2 with force-down does not finish within the job limit (measured > 25 min)
                jobs.append(dict(L=L, W=W, m=m, fd=fd, _cost=(m + 1) ** (L * W), _timeout_s=1500))
    return jobs


@harness("gen.rnd_board", props=["C15"], jobs=_rnd_jobs, covers=["force_down", "plain"],
         stubs=["random -> contract stub: stream = uninterpreted function of (seed, position), random() in (0,1), choices/randrange in range; "
                "a counterexample is replayed natively on the real code with the stream values the solver chose, then with the real PRNG on 48 seeds",
                "math.log -> monotone uninterpreted function with ln 1 = 0 and ln 2^-(m+1) = -(m+1) ln 2; math.floor -> k <= x < k+1"],
         bounds="boards up to 1x3 (and 2x2 without force-down; quick: 2 tiles), max_reward in {1,2,3,4,6,8} (quick {1,2,6}; 3-4 tiles: {1,2}), ANY seed >= 0 and ANY loose-tile "
                "probability in (0,1) (symbolic), both force-down settings",
         assumes=["random.random() never returns exactly 0.0 (then the reward would be max_reward+1; probability 2^-53 per tile)",
                  "uniformity of the PRNG (flag frequency = requested probability follows from flag <=> own uniform draw < p)"],
         desc="real gen_rnd_board: requested dimensions; every reward an integer in 0..max_reward; every loose flag is 1 exactly when "
              "its own draw is below the requested probability (distinct draws for distinct tiles); arrows from the allowed set with a "
              "down-only tile in every row iff force-down; two calls with the same seed and parameters give identical boards")
def gen_rnd_board(sp, L, W, m, fd):
    gen = repo.load("roberta_generator", alias="roberta_generator_rnd")
    rs, ms = RandomStub(sp), MathStub(sp)
    gen.random, gen.math = rs, ms
    seeds = [sp.int("seed", 0, None)]
    p = sp.real("prob_loose", 0, 1, lo_open=True, hi_open=True)
    runs = [(seeds[0], L, W)]
    if sp.mode == "native":
        # the contract run cannot be replayed bit for bit: try the real PRNG on several seeds and on a large board
        runs += [(s, L, W) for s in range(0, 40)] + [(s, 16, 16) for s in (seeds[0], 1, 2, 3, 4, 5, 6, 7)]
    for run_no, (seed, L, W) in enumerate(runs):
        if run_no == 1:
            rs.replay = False      # further native runs use the real PRNG only
        ms.power_of_two(m + 1)
        moves, rewards, loose = gen.gen_rnd_board(seed, L, W, p, m, fd)
        draws = list(rs.draws)
        sp.cover("force_down" if fd else "plain")
        for name, b in (("moves", moves), ("rewards", rewards), ("loose_tiles", loose)):
            sp.prove(isinstance(b, list) and len(b) == L and all(isinstance(r, list) and len(r) == W for r in b),
                     "%s is not a %dx%d board" % (name, L, W))
        used = set()
        for i in range(L):
            for j in range(W):
                r = rewards[i][j]
                sp.prove(isinstance(r, int), "reward is not an integer")
                sp.prove(b_and(r >= 0, r <= m), "reward outside 0..max_reward")
                f = loose[i][j]
                sp.prove(f in (0, 1) and isinstance(f, int), "loose flag %r" % (f,))
                # its own uniform draw decides the flag
                own = None
                for k, d in enumerate(draws):
                    if k in used:
                        continue
                    c = (d < p) if f == 1 else b_not(d < p)
                    ok = c if isinstance(c, bool) else (sp.check(z3.Not(core.as_z3_bool(c))) == z3.unsat)
                    if ok:
                        own = k
                        break
                sp.prove(own is not None, "loose flag of tile (%d,%d) is not decided by a draw of its own against the requested probability" % (i, j))
                used.add(own)
                a = moves[i][j]
                sp.prove(isinstance(a, int) and a in ((0, 1, 2, 3) if fd else (0, 1, 2)), "arrow %r not allowed" % (a,))
            sp.prove((3 in moves[i]) == fd, "row %d %s a down-only tile (force-down %s)" % (i, "has" if 3 in moves[i] else "lacks", fd))
        # reproducibility
        moves2, rewards2, loose2 = gen.gen_rnd_board(seed, L, W, p, m, fd)
        sp.prove(moves2 == moves and loose2 == loose, "same seed and parameters give a different board (arrows / loose tiles)")
        for i in range(L):
            for j in range(W):
                sp.prove(rewards2[i][j] == rewards[i][j], "same seed and parameters give different rewards")
        # a later call with the other force-down setting honours it (no state carried between calls)
        if L * W <= 2 and m <= 2 or sp.mode == "native":
            moves3, _, _ = gen.gen_rnd_board(seed, L, W, p, m, not fd)
            for i in range(L):
                sp.prove((3 in moves3[i]) == (not fd), "a call following one with the other force-down setting ignores its own setting")
            moves4, rewards4, loose4 = gen.gen_rnd_board(seed, L, W, p, m, fd)
            sp.prove(moves4 == moves and loose4 == loose, "board depends on earlier calls with other parameters")


# ------------------------------------------------------------------ C15 / C17: the real argument parser (concrete)
ARGV_CASES = [
    (["-s", "9007199254740993", "-w", "2", "-l", "3"], dict(seed=9007199254740993, width=2, length=3)),
    (["--seed", "100000000000000000001"], dict(seed=100000000000000000001)),
    (["-s", "0"], dict(seed=0, width=3, length=3, max_reward=6, force_down=False)),
    (["-p", "0.29", "-q", "0.57", "-r", "0.58", "-t", "0.07"], dict(prob_robot_break=0.29, prob_light_break=0.57, prob_tile_break=0.58, prob_loose_tile=0.07)),
    (["-m", "12", "-f"], dict(max_reward=12, force_down=True)),
    (["--width", "7", "--length", "1", "--max_reward", "1"], dict(width=7, length=1, max_reward=1)),
    (["-p", "1e-3", "-t", "0.999"], dict(prob_robot_break=0.001, prob_loose_tile=0.999)),
]


@harness("gen.parser", props=["C15", "C17"], jobs=lambda tier, seed: [dict(k=k) for k in range(len(ARGV_CASES))], sentinel=True,
         bounds="CONCRETE: 7 argument vectors incl. seeds beyond 2^53 and 2^64, boundary probabilities, every option in short and long form",
         desc="CONCRETE (not a solver verdict): the real init_parser() delivers exactly the integers and doubles written on the command line "
              "(no loss for huge seeds), documented defaults otherwise")
def gen_parser(sp, k):
    gen = repo.std().gen
    argv, exp = ARGV_CASES[k]
    ns = gen.init_parser().parse_args(argv)
    defaults = dict(seed=0, width=3, length=3, prob_robot_break=0.1, prob_light_break=0.1, prob_tile_break=0.1, prob_loose_tile=0.3,
                    max_reward=6, force_down=False)
    for name, dv in defaults.items():
        want = exp.get(name, dv)
        got = getattr(ns, name)
        sp.prove(type(got) is type(want) and got == want, "argument %s parsed as %r, written as %r" % (name, got, want))


# ------------------------------------------------------------------ C15: the same board in every process
@harness("gen.repro_processes", props=["C15"], jobs=lambda tier, seed: [dict(fd=f, seed=s) for f in (False, True) for s in (0, 7, 47)], sentinel=True,
         bounds="CONCRETE: 3 seeds x force-down on/off, each generated in three separate interpreter processes with different PYTHONHASHSEED",
         desc="CONCRETE (not a solver verdict): the board for a seed and parameter set is the same in every run of the tool, "
              "whatever the interpreter's hash randomisation")
def gen_repro_processes(sp, fd, seed):
    import subprocess, sys, os
    code = ("import sys; sys.path.insert(0, %r); import roberta_generator as g; "
            "print(g.gen_rnd_board(%d, 4, 5, 0.3, 6, %r))" % (repo.REPO, seed, fd))
    outs = []
    for hs in ("0", "1", "4242"):
        env = dict(os.environ, PYTHONHASHSEED=hs, PYTHONDONTWRITEBYTECODE="1")
        r = subprocess.run([sys.executable, "-c", code], capture_output=True, text=True, env=env, timeout=120)
        sp.prove(r.returncode == 0, "generator failed in a subprocess: %s" % r.stderr[-200:])
        outs.append(r.stdout)
    sp.prove(outs[0] == outs[1] == outs[2], "the same seed and parameters give different boards in different processes")
    gen = repo.std().gen
    sp.prove(outs[0].strip() == repr(gen.gen_rnd_board(seed, 4, 5, 0.3, 6, fd)), "board differs between this process and a fresh one")


# ------------------------------------------------------------------ C11 / C15: the real main() on extreme but legal parameter sets (concrete)
EXTREMES = [
    dict(seed=0, width=1, length=1, max_reward=1, pl=5e-324, pt=0.5, pr=0.5, plg=0.5, fd=False),
    dict(seed=1, width=1, length=3, max_reward=6, pl=1e-17, pt=1e-300, pr=0.9999999999999999, plg=1e-12, fd=True),
    dict(seed=2 ** 63, width=2, length=1, max_reward=40, pl=0.9999999999999999, pt=0.999999, pr=1e-9, plg=0.5, fd=True),
    dict(seed=7, width=3, length=2, max_reward=1, pl=2.2250738585072014e-308, pt=0.29, pr=0.57, plg=0.58, fd=False),
    dict(seed=10 ** 20 + 1, width=1, length=1, max_reward=2, pl=0.5, pt=0.07, pr=0.14, plg=0.28, fd=True),
]


@harness("gen.main_extremes", props=["C11", "C15"], jobs=lambda tier, seed: [dict(k=k) for k in range(len(EXTREMES))], sentinel=True,
         stubs=["open -> in-memory file", "init_parser -> fixed arguments"],
         bounds="CONCRETE: 5 accepted parameter sets at the edges of the documented ranges (smallest / largest doubles in (0,1), width 1 "
                "with force-down, seeds beyond 2^63, max_reward 40)",
         desc="CONCRETE (not a solver verdict): the real main() accepts every documented parameter set, writes exactly one file, and "
              "the real reader loads it into game_a, game_b, game_c that pass the solver's validation; the board has the requested shape")
def gen_main_extremes(sp, k):
    from .batch import FakeFile
    e = EXTREMES[k]
    gen = repo.load("roberta_generator", overrides={"open": FakeFile}, alias="roberta_generator_ext")
    cr = repo.load("conditionalrewards", overrides={"open": FakeFile}, imports={"tad": repo.std().tad, "reverse_dfs": repo.std().reverse_dfs},
                   alias="conditionalrewards_ext")
    a = Args()
    a.seed, a.width, a.length, a.max_reward = e["seed"], e["width"], e["length"], e["max_reward"]
    a.prob_loose_tile, a.prob_tile_break, a.prob_robot_break, a.prob_light_break, a.force_down = e["pl"], e["pt"], e["pr"], e["plg"], e["fd"]

    class P:
        def parse_args(self):
            return a
    gen.init_parser = lambda: P()
    FakeFile.store, FakeFile.opened = {}, []
    gen.main()
    sp.prove(len(FakeFile.opened) == 1 and FakeFile.opened[0][1] == "w", "files opened: %s" % FakeFile.opened)
    name = FakeFile.opened[0][0]
    sp.prove(name.startswith("inputs/robot_%d_w%d_l%d_r%d_" % (e["seed"], e["width"], e["length"], e["max_reward"])) and
             name.endswith(("_force_down" if e["fd"] else "") + ".py") and ("_force_down" in name) == e["fd"], "file name %s" % name)
    d = cr.read_dict_from_file(name)
    sp.prove(list(d.keys()) == ["game_a", "game_b", "game_c"], "file denotes %s" % list(d.keys()))
    n_tiles = e["width"] * e["length"]
    for key, total in (("game_a", 4), ("game_b", 7), ("game_c", 10)):
        g = d[key]
        sp.prove(len(g["players"]) == total * n_tiles + 2, "%s has %d states for %d tiles" % (key, len(g["players"]), n_tiles))
        sg = repo.std().tad.StochasticGame(prune_states=True, **g)
        sg.check_game()
        sp.prove(len(sg.init_states()) == len(g["players"]), "%s: a state without transitions" % key)
        for pl, tr in zip(g["players"], g["transition_list"]):
            if pl == "Probabilistic":
                sp.prove(all(p > 0 for p, _ in tr) and abs(sum(p for p, _ in tr) - 1) <= 1e-12, "%s: chance state with probabilities %s" % (key, [p for p, _ in tr]))
    text = FakeFile.store[name]
    rows = [ln for ln in text.split("\n") if ln.startswith("#   ")]
    sp.prove(len(rows) == e["length"] and all(r.count("[") == e["width"] for r in rows), "board picture is not %dx%d" % (e["length"], e["width"]))
    if e["fd"]:
        sp.prove(all("|v(" in r for r in rows), "force-down requested but a row has no down-only tile")
