"""Whole-pipeline harnesses: the real StochasticGame.solve() on the template families with
all rewards symbolic at once, against the oracles of games.py (DESIGN 3.4, 3.5, 4)."""
import copy
import itertools
from fractions import Fraction

import z3

from symex import repo, core
from symex.core import to_real, zabs, PathCut, Violation, rat
from symex.runner import harness
from . import games as G
from .common import *

THR = 10 ** (-6)
TOL = 4e-5           # threshold * 40 >= threshold * 2(T+1) for every template with a reward oracle (T <= 19 checked)
SEP = 2 * TOL + 1e-6


class SweepBudget(Exception):
    pass


class LoggingStub:
    """`logging` as seen by tad.py: messages are dropped; every 'iteration k' debug line counts one sweep and
    a sweep budget is enforced (this is how non-termination becomes observable)."""
    DEBUG, INFO = 10, 20

    WARNING, ERROR, CRITICAL, NOTSET = 30, 40, 50, 0

    def __init__(self):
        self.budget = 10 ** 9
        self.sweeps = 0
        self.level = self.INFO
        self.root = self

    def reset(self, budget, level=None):
        self.budget = budget
        self.sweeps = 0
        self.level = self.INFO if level is None else level

    def isEnabledFor(self, level):
        return level >= self.level

    def log(self, level, msg, *a):
        if level == self.DEBUG:
            self.debug(msg, *a)

    def debug(self, msg, *a):
        if type(msg) is str and msg.startswith("iteration "):
            self.sweeps += 1
            if self.sweeps > self.budget:
                raise SweepBudget("more than %d value-iteration sweeps" % self.budget)

    def info(self, *a):
        pass

    error = warning = info

    def getLogger(self):
        return self

    def getEffectiveLevel(self):
        return self.level


_pipe = {}


def tad_pipe():
    """tad.py for pipeline runs: proxy-aware max/min (merging) and the sweep-counting logging stub"""
    if "tad" not in _pipe:
        std = repo.std()
        m = repo.load("tad", overrides=dict(PROXY_BUILTINS, max=sym_max, min=sym_min), imports={"reverse_dfs": std.reverse_dfs},
                      alias="tad_pipe")
        m.logging = LoggingStub()
        with_math(m)
        _pipe["tad"] = m
    return _pipe["tad"]


BUILD = dict(near_chain=G.near_chain, near_sep=G.near_sep, final_to_dead=G.final_to_dead, zero_alive=G.zero_alive, order_sum=G.order_sum, zero_dead=G.zero_dead, p2_selfloop=G.p2_selfloop, huge_reward=G.huge_reward, zero_branch=G.zero_branch, decimals2=G.decimals2, tiny_vs_dead=G.tiny_vs_dead, cancel_mass=G.cancel_mass,
             dead_branch_rewards=G.dead_branch_rewards, corridor=G.corridor, p1_final=G.p1_final, init_final=G.init_final, big_rewards=G.big_rewards, dup_actions=G.dup_actions, decimals=G.decimals,
             tie_small=G.tie_small, all_live_orphan=G.all_live_orphan, p2_shared=G.p2_shared, paid_final=G.paid_final, orphans=G.orphans, slow_rew=G.slow_rew, regroup=G.regroup, rew_ties=G.rew_ties, fig55=G.fig55, dead=G.dead_family, cyc=G.cyc, cyc2=G.cyc2, ec=G.ec, finals=G.finals, p2choice=G.p2choice,
             lex=G.lex, ties=G.ties, ties_p2=G.ties_p2, nosol=G.nosol, unreach=G.unreach, slow_chain=G.slow_chain)


def build(game, args):
    return BUILD[game](*args)


_oracle_cache = {}


def oracle(game, args):
    key = (game, repr(args))
    if key not in _oracle_cache:
        g = build(game, args)
        ex = G.exact_reach(g.players, g.tl, g.finals)
        T = G.max_steps(g.players, g.tl)
        _oracle_cache[key] = (ex, T)
    return _oracle_cache[key]


def oracle_decimal(game, args):
    """exact values with probability literals read as the decimals they were written as (0.1 = 1/10): the values in which
    ties 'equal as rational numbers but reached through different floating-point sums' are exact"""
    key = (game, repr(args), "dec")
    if key not in _oracle_cache:
        g = build(game, args)
        _oracle_cache[key] = G.exact_reach(g.players, g.tl, g.finals, conv=G.dec)
    return _oracle_cache[key]


def solve(sp, desc, prune, budget=400):
    budget = desc.get("_budget", budget) if isinstance(desc, dict) else budget
    level = desc.get("_log_level") if isinstance(desc, dict) else None
    desc = {k: v for k, v in desc.items() if not k.startswith("_")}
    """run the real pipeline on a fresh copy; returns ('ok', 8-tuple) | ('nosol', message)"""
    t = tad_pipe()
    t.logging.reset(budget, level)
    sg = t.StochasticGame(prune_states=prune, **copy.deepcopy(desc))
    try:
        res = sg.solve()
    except ValueError as e:
        if "no solution" in str(e):
            return "nosol", str(e)
        raise
    except SweepBudget as e:
        raise Violation("value iteration did not stop: %s" % e, sp.current_assignment())
    return "ok", res


def reach_phase(sp, desc, prune, budget=400):
    """only the reachability phase of the pipeline (real check_game, init_states, Solver.solve_reachability):
    for games whose reward phase is outside every property's premise (non-absorbing final states)"""
    t = tad_pipe()
    t.logging.reset(budget)
    sg = t.StochasticGame(prune_states=prune, **copy.deepcopy(desc))
    sg.check_game()
    state_list = sg.init_states()
    solver = t.Solver(threshold=10 ** (-6), state_list=state_list)
    try:
        strat, n_it = solver.solve_reachability(sg.transition_list, sg.final_states, prune)
    except ValueError as e:
        if "no solution" in str(e):
            return "nosol", str(e)
        raise
    except SweepBudget as e:
        raise Violation("value iteration did not stop: %s" % e, sp.current_assignment())
    probs = [st.reach_probability for st in state_list]
    n = len(state_list)
    return "ok", ([None] * n, strat, [0] * n, probs, n_it, 0, [0] * n, [0] * n)


# ------------------------------------------------------------------ instance lists
def _stopping_instances(tier):
    """templates with a reward oracle (stopping, finals absorbing)"""
    inst = []
    grid = [(0.5, 0.75), (0.25, 0.25), (0.1, 0.9)] if tier == "quick" else \
        [(p, q) for p in (0.5, 0.25, 0.125, 0.1, 0.3) for q in (0.75, 0.25, 0.9, 1 / 64)]
    for p, q in grid:
        inst.append(("fig55", [p, q]))
    inst.append(("fig55", [0.5, 0.75, [1, 2, 3, 4]]))
    letters2 = "DCABFETU"
    for kind in (P1, PR):
        for sk in itertools.product(letters2, repeat=2):
            inst.append(("dead", [kind, list(sk)]))
        l3 = "DAF" if tier == "quick" else "DCAFE"
        if tier == "quick":
            for sk in (["E", "A", "D"], ["A", "E", "E"], ["E", "E", "F"], ["E", "D", "B"]):
                inst.append(("dead", [kind, sk]))
        for sk in itertools.product(l3, repeat=3):
            inst.append(("dead", [kind, list(sk)]))
        if tier == "thorough":
            for sk in itertools.product("DAF", repeat=4):
                inst.append(("dead", [kind, list(sk)]))
        if kind == PR:      # (a Player 1 self-loop is a rewarded player-only end component: not a stopping game)
            for sk in (["D", "A"], ["A", "D"], ["D", "D", "F"], ["D", "F", "D"], ["A", "D", "D"]):
                inst.append(("dead", [kind, sk, True]))
    for b in ([1 / 1024, 1 / 64] if tier == "quick" else [1 / 1024, 1 / 64, 1 / 8]):
        for owner in (P1, P2):
            inst.append(("cyc", [b, owner]))
    if tier == "thorough":
        inst.append(("cyc2", []))
    for order in ([(0, 1, 2), (2, 1, 0)] if tier == "quick" else list(itertools.permutations(range(3)))):
        inst.append(("p2choice", [list(order), P1]))
    inst.append(("p2choice", [[0, 1, 2], P2]))
    inst.append(("lex", []))
    for w in ("quarter", "tenths"):
        inst.append(("ties", [w]))
    inst.append(("ties_p2", []))
    for w in ("p1", "p2", "pr"):
        inst.append(("unreach", [w]))
    for o in (0, 1, 2):
        inst.append(("orphans", [o]))
    inst += [("p1_final", [P1, True]), ("final_to_dead", []), ("zero_alive", []), ("order_sum", []), ("zero_dead", []), ("zero_branch", []), ("decimals2", []), ("tiny_vs_dead", []), ("dead_branch_rewards", []), ("p1_final", [P1]), ("p1_final", [P2]), ("init_final", []), ("dup_actions", []), ("decimals", []), ("tie_small", []),
             ("all_live_orphan", []), ("p2_shared", ["a"]), ("p2_shared", ["b"])]
    for order in ([(0, 1, 2), (2, 1, 0), (1, 0, 2)] if tier == "quick" else list(itertools.permutations(range(3)))):
        inst.append(("big_rewards", [P2, list(order)]))
        inst.append(("big_rewards", [P1, list(order)]))
    return inst


def _reach_only_instances(tier):
    inst = []
    for w in ("p1p1", "p2p2", "p1p2", "p2deep"):
        inst.append(("ec", [w]))
    for w in ("34", "43", "343", "4", "3"):
        inst.append(("finals", [w]))
    for w in ("forced", "nopath", "chance", "walled"):
        inst.append(("nosol", [w]))
    inst.append(("p2_selfloop", []))
    return inst


def _cost(game, args):
    if game in ("cyc", "cyc2", "lex"):
        return 50
    if game == "dead" and len(args) > 2:
        return 20
    return 1


# ------------------------------------------------------------------ C01 / C04 / C06: reachability side (native doubles)
def _reach_jobs(tier, seed):
    dbg = [dict(game=g, args=a, debug=True, _cost=1) for g, a in (("fig55", [0.5, 0.75]), ("p2choice", [[2, 1, 0], P1]), ("ties", ["tenths"]),
                                                                 ("dead", [P1, ["A", "B"]]), ("dead", [PR, ["D", "A"]]))]
    return dbg + [dict(game=g, args=a, _cost=1) for g, a in _stopping_instances(tier) + _reach_only_instances(tier)] + \
        [dict(game="slow_chain", args=[], _props=["C01"]), dict(game="fig55", args=[5e-7, 5e-7], _props=["C06"])] + \
        [dict(game="near_sep", args=[k, list(o)], _props=["C04"]) for k in (P1, P2) for o in itertools.permutations(range(3))]


def _check_shape(sp, g, res):
    sp.prove(isinstance(res, tuple) and len(res) == 8, "solve() does not return its 8 outputs")
    for k in (0, 1, 2, 3, 6, 7):
        sp.prove(len(res[k]) == g.n, "output %d has %d entries for %d states" % (k, len(res[k]), g.n))


@harness("pipe.reach", props=["C01", "C04", "C06"], jobs=_reach_jobs,
         covers=["solved", "nosol", "final", "pathless", "interior", "p1_tie", "p2_state"],
         stubs=["logging -> sweep counter"],
         bounds="template families (n<=8 states) x probability grid x both pruning modes; rewards concrete (1 at reward slots); "
                "reachability runs natively in IEEE doubles; exact oracle = max-min over all memoryless strategy pairs in Fractions",
         desc="real solve(): reported probabilities vs the exact game values (finals 1, pathless 0, never above, within "
              "threshold*T below), identical with pruning on/off; reachability strategies = exact optimal action sets; "
              "'no solution' iff pruning and exact value of state 0 is 0; complete 8-tuple otherwise")
def pipe_reach(sp, game, args, debug=False):
    g = build(game, args)
    exact, T = oracle(game, args)
    Tf = float(T) if T is not None else 40.0
    fill = 1 if (g.stopping and game not in ("ec", "finals")) else 0   # player-only cycles / non-absorbing finals: keep rewards 0
    desc = dict(rewards=[fill if r == G.SYM else r for r in g.rewards], players=list(g.players),
                transition_list=[list(x) for x in g.tl], final_states=list(g.finals))
    if debug:
        desc["_log_level"] = LoggingStub.DEBUG      # the tool run with -l d: results must not depend on the log level
    can = G.has_path(g.tl, g.finals)
    out = {}
    for prune in (True, False):
        out[prune] = (reach_phase if game == "finals" else solve)(sp, desc, prune)
    # C06: solved or declared unsolvable, exactly when
    expect_nosol = exact[0] == 0
    sp.prove((out[True][0] == "nosol") == expect_nosol,
             "pruning on: %s although the exact value of the initial state is %s" % (out[True][0], exact[0]))
    sp.prove(out[False][0] == "ok", "pruning off: no result")
    sp.cover("nosol" if expect_nosol else "solved")
    for prune in (True, False):
        if out[prune][0] != "ok":
            continue
        res = out[prune][1]
        _check_shape(sp, g, res)
        probs = res[3]
        for s in range(g.n):
            if s in g.finals:
                sp.cover("final")
                sp.prove(probs[s] == 1, "final state %d reports %r" % (s, probs[s]))
            elif s not in can:
                sp.cover("pathless")
                sp.prove(probs[s] == 0, "state %d has no path to a final state but reports %r" % (s, probs[s]))
            else:
                sp.cover("interior")
                e = float(exact[s])
                sp.prove(probs[s] <= e + 1e-12, "state %d reports %r above the exact value %r" % (s, probs[s], e))
                sp.prove(e - probs[s] <= min(THR * max(Tf, 1) * 2, 1e-3),
                         "state %d reports %r but its exact value is %r: not within the convergence tolerance" % (s, probs[s], e))
        # C04: exact optimal action sets wherever competing exact values are equal or > 1e-5 apart
        strat = res[1]
        for s in range(g.n):
            if g.players[s] == PR:
                sp.prove(strat[s] is None, "chance state %d has a reachability strategy" % s)
                continue
            dexact = oracle_decimal(game, args)
            vals = [dexact[t] for _, t in g.tl[s]]
            ok = all(a == b or abs(a - b) > Fraction(1, 10 ** 5) for a, b in itertools.combinations(vals, 2))
            if not ok and g.acyclic():
                # acyclic templates report exact values up to float noise: the statement's own bound applies (further apart than
                # the tolerance 1e-6), provided no value sits within 1e-8 of a boundary between two 6-digit rounding cells
                u = Fraction(1, 10 ** 6)
                ok = all(a == b or abs(a - b) > u for a, b in itertools.combinations(vals, 2)) and \
                    all(Fraction(1, 10 ** 8) < (v - u / 2) % u < u - Fraction(1, 10 ** 8) for v in vals)
            if not ok:
                continue
            ext = max(vals) if g.players[s] == P1 else min(vals)
            exp = [a for (a, t), v in zip(g.tl[s], vals) if v == ext]
            if g.players[s] == P2:
                sp.cover("p2_state")
            elif len(exp) > 1:
                sp.cover("p1_tie")
            sp.prove(strat[s] == exp, "reachability strategy of state %d is %s, exact optimal actions %s" % (s, strat[s], exp))
    if out[True][0] == "ok":
        sp.prove(out[True][1][3] == out[False][1][3], "probabilities differ between pruning on and off")
        sp.prove(out[True][1][1] == out[False][1][1], "reachability strategies differ between pruning on and off")
        sp.prove(out[True][1][4] == out[False][1][4], "reachability sweep counts differ between pruning on and off")


# ------------------------------------------------------------------ C02 / C05 / C14 / C06: reward side (symbolic rewards)
def _rew_jobs(tier, seed):
    jobs = []
    for g, a in _stopping_instances(tier):
        for prune in (True, False):
            jobs.append(dict(game=g, args=a, prune=prune, _cost=_cost(g, a), _timeout_s=1500))
    return jobs


def _pipe_rewards(sp, game, args, prune, focus):
    g = build(game, args)
    exact, T = oracle(game, args)
    assert T is not None and T <= 19, (game, args, T)
    desc = g.description(sp)
    rew = desc["rewards"]
    kind, res = solve(sp, desc, prune)
    if kind == "nosol":
        sp.prove(prune and exact[0] == 0, "'no solution' although the exact value of the initial state is %s" % exact[0])
        sp.cover("nosol")
        return
    sp.cover("solved")
    sp.prove(not (prune and exact[0] == 0), "solved although pruning is on and the initial state has value 0")
    _check_shape(sp, g, res)
    fin, rstrat, rewards, probs = res[0], res[1], res[2], res[3]
    ctl = G.condition(g.players, g.tl, probs, rstrat, prune)
    states = sorted(G.reach_from0(ctl)) if prune else list(range(g.n))
    for s in states:
        if G.absorbing_or_empty(ctl[s], s):
            assert not is_sym(rew[s]) and rew[s] == 0, "template has a rewarded absorbing state"
    w, cons = G.bellman_rewards(g.players, ctl, states, rew)
    sp.add(cons)
    if sp.check() != z3.sat:
        raise core.Inconclusive("reward oracle has no solution on this path")
    sp.model = None
    if "C02" in focus:
        for s in states:
            sp.prove(zabs(to_real(rewards[s]) - w[s]) <= rat(TOL),
                     "expected reward of state %d differs from the conditioned game's value" % s)
    if "C05" in focus or "C14" in focus:
        # C05 inclusion: for every Player 1 state
        for s in range(g.n):
            if g.players[s] == P1:
                sp.prove(set(fin[s]) <= set(rstrat[s]), "final strategy of state %d leaves its reachability strategy" % s)
            elif g.players[s] == PR:
                sp.prove(fin[s] is None, "chance state %d has a final strategy" % s)
        # side condition (part of the query): competing successor rewards equal or separated
        conds = []
        for s in states:
            if g.players[s] != PR:
                ts = sorted({t for _, t in ctl[s]})
                for a, b in itertools.combinations(ts, 2):
                    d = w[a] - w[b]
                    if "C14" in focus:
                        conds.append(z3.Or(d > rat(SEP), -d > rat(SEP)))
                    elif g.acyclic():
                        conds.append(z3.Or(d == 0, d > rat(SEP), -d > rat(SEP)))
                    else:
                        conds.append(z3.Or(z3.And(w[a] == 0, w[b] == 0), d > rat(SEP), -d > rat(SEP)))
        if conds:
            if sp.check(z3.And(conds)) == z3.unsat:
                sp.cover("side_condition_never_holds")     # e.g. two successors that are both worth 0 for every reward vector
                return
            sp.assume(z3.And(conds))
    if "C05" in focus:
        for s in states:
            if g.players[s] == PR or not ctl[s]:
                continue
            if len({a for a, _ in ctl[s]}) < len(ctl[s]):
                continue        # repeated action names: decided by the concrete harness (pipe.final_concrete)
            succ = [w[t] for _, t in ctl[s]]
            ext = zmax(succ) if g.players[s] == P1 else zmin(succ)
            sp.prove(fin[s] == [a for a, _ in ctl[s] if a in fin[s]], "final strategy of state %d is not in transition order" % s)
            for (a, t) in ctl[s]:
                if a in fin[s]:
                    sp.prove(w[t] == ext, "final strategy of state %d lists %r, which is not reward-optimal" % (s, a))
                else:
                    sp.prove(w[t] != ext, "final strategy of state %d misses the reward-optimal action %r" % (s, a))
            if len(fin[s]) > 1:
                sp.cover("reward_tie")
    if "C14" in focus:
        for s in states:
            if g.players[s] != PR and ctl[s] and len({t for _, t in ctl[s]}) > 1:
                sp.prove(len(fin[s]) == 1, "separated successor rewards but the final strategy of state %d is %s" % (s, fin[s]))
        q, cq = G.linear_under(g.players, ctl, states, rew, fin, "q", g.finals, "q")
        pick_m = {s: (fin[s] if g.players[s] == P1 else rstrat[s]) for s in states if g.players[s] != PR}
        m, cm = G.linear_under(g.players, ctl, states, rew, pick_m, "m", g.finals, "m")
        sp.add(cq + cm)
        if sp.check() != z3.sat:
            raise core.Inconclusive("diagnostic oracle has no solution on this path")
        sp.model = None
        for s in states:
            sp.prove(zabs(to_real(res[6][s]) - q[s]) <= rat(TOL),
                     "'probabilities under minimal reward' of state %d is not the reach probability under the final strategies" % s)
            sp.prove(zabs(to_real(res[7][s]) - m[s]) <= rat(TOL),
                     "'rewards under minimal reachability' of state %d is not the reward under final/reachability strategies" % s)
        if prune:
            sp.prove(zabs(to_real(res[6][0]) - 1) <= rat(TOL), "with pruning on the initial state does not reach a final state w.p.1 under the final strategies")
    sp.note("states", states)


_RB = ("stopping template families (n<=8: fig 5.5 grid, dead(K<=3; thorough K<=4) with every arrangement of dead/alive "
       "successors for a Player 1 and a chance initial state, chance cycles with return probability <= 1/64 "
       "(thorough 1/8, two cycles), Player 2 choice, lexicographic, float-sum ties, unreachable states) x both pruning modes; "
       "ALL symbolic rewards at once in {0} u [1/8,4]; probabilities concrete (grid); tolerance 4e-5")
_RA = ["rewards in (0,1/8) outside", "probabilities concrete", "stopping games only (unique Bellman solution; zero-reward "
       "absorbing and emptied states pinned to 0)"]


@harness("pipe.rewards", props=["C02", "C06"], jobs=_rew_jobs, covers=["solved", "nosol"], stubs=["logging -> sweep counter",
         "max/min -> merging proxies"], bounds=_RB, assumes=_RA,
         desc="real solve(): for all reward vectors at once, the reported expected rewards of every state reachable from the "
              "initial state (pruning off: every state) equal the unique solution of the reference-conditioned game's max-min "
              "equations (SMT Bellman system); solved / 'no solution' exactly as specified; terminates within the sweep budget")
def pipe_rewards(sp, game, args, prune):
    _pipe_rewards(sp, game, args, prune, ("C02",))


@harness("pipe.final_strategies", props=["C05"], jobs=_rew_jobs, covers=["solved", "reward_tie"], stubs=["logging -> sweep counter",
         "max/min -> merging proxies"], bounds=_RB, assumes=_RA + ["competing successor rewards equal or more than 8.1e-5 apart (assumed inside the query)"],
         desc="real solve(): final strategy of every Player 1 state is within its reachability strategy; for states reachable "
              "from the initial state it lists, in order, exactly the permitted actions with extremal conditioned reward")
def pipe_final(sp, game, args, prune):
    _pipe_rewards(sp, game, args, prune, ("C05",))


def _diag_jobs(tier, seed):
    # C14's premise: stopping games with absorbing final states and unambiguous action names
    return [j for j in _rew_jobs(tier, seed) if j["game"] not in ("dup_actions", "init_final", "p1_final", "final_to_dead")]


@harness("pipe.diagnostics", props=["C14"], jobs=_diag_jobs, covers=["solved"], stubs=["logging -> sweep counter",
         "max/min -> merging proxies"], bounds=_RB, assumes=_RA + ["no reward ties: competing successor rewards more than 8.1e-5 apart (assumed inside the query)"],
         desc="real solve(): with single-action final strategies the two diagnostic vectors equal the solutions of the linear "
              "systems 'reach probability under both final strategies' and 'reward under P1 final / P2 reachability strategy "
              "(cheapest)'; 1 at the initial state when pruning")
def pipe_diag(sp, game, args, prune):
    _pipe_rewards(sp, game, args, prune, ("C14",))


# ------------------------------------------------------------------ C05 / C02: concrete rewards vs exact Fraction oracle (float-sum ties)
def _conc_jobs(tier, seed):
    jobs = [dict(game=g, args=a, _cost=1) for g, a in _stopping_instances(tier)]
    for owner in (P1, P2):
        for r in (1, 3, 0.3, 7):
            jobs.append(dict(game="rew_ties", args=[owner, r], _cost=1))
    for p in (0.9997, 0.99):
        jobs.append(dict(game="slow_rew", args=[p], _cost=5))
    for n in (60,):
        for rev in (False, True):
            jobs.append(dict(game="corridor", args=[n, rev], _cost=5))
    jobs += [dict(game="huge_reward", args=[P1]), dict(game="huge_reward", args=[P2]), dict(game="cancel_mass", args=[])]
    jobs += [dict(game=g, args=a, debug=True) for g, a in (("fig55", [0.5, 0.75]), ("p2choice", [[2, 1, 0], P1]), ("lex", []), ("big_rewards", [P2, [0, 1, 2]]))]
    return jobs


@harness("pipe.final_concrete", props=["C05", "C02", "C06"], jobs=_conc_jobs, covers=["float_sum_tie", "p1_tie", "p2_tie"],
         stubs=["logging -> sweep counter"],
         bounds="all stopping template instances with concrete rewards (1 at the reward slots) plus exact reward ties reached through "
                "different floating-point sums (0.7r+0.2r+0.1r vs r); everything runs natively in IEEE doubles; oracle: exact max-min "
                "expected total reward of the reference-conditioned game in Fractions, probability literals read as decimals",
         desc="CONCRETE differential (not a solver verdict): real solve() natively; reported rewards within 4e-5 of the exact values and "
              "final strategies = exactly the permitted reward-optimal actions wherever exact successor values are equal or > 1e-4 apart")
def pipe_final_concrete(sp, game, args, debug=False):
    g = build(game, args)
    desc = dict(rewards=[1 if r == G.SYM else r for r in g.rewards], players=list(g.players),
                transition_list=[list(x) for x in g.tl], final_states=list(g.finals))
    if debug:
        desc["_log_level"] = LoggingStub.DEBUG
    T = G.max_steps(g.players, g.tl)
    tol = max(TOL, 2 * THR * float(T) * max(1, max(desc["rewards"]))) if T is not None else TOL
    if game in ("slow_rew", "corridor"):
        desc["_budget"] = 10 ** 6      # slow_rew needs ~1/(1-p) * 15 sweeps, a forward-numbered corridor one sweep per tile
    for prune in (True, False):
        kind, res = solve(sp, desc, prune)
        if kind != "ok":
            continue
        fin, rstrat, rewards, probs = res[0], res[1], res[2], res[3]
        ctl = G.condition(g.players, g.tl, probs, rstrat, prune)
        states = sorted(G.reach_from0(ctl)) if prune else list(range(g.n))
        ex = G.exact_rewards(g.players, ctl, desc["rewards"], conv=G.dec)
        for s in states:
            sp.prove(abs(float(ex[s]) - rewards[s]) <= tol, "expected reward of state %d is %r, exact conditioned value %s" % (s, rewards[s], float(ex[s])))
            if g.players[s] == PR:
                sp.prove(fin[s] is None, "chance state %d has a final strategy" % s)
                continue
            if not ctl[s]:
                continue
            vals = [ex[t] for _, t in ctl[s]]
            if not all(a == b or abs(a - b) > Fraction(1, 10 ** 4) for a, b in itertools.combinations(vals, 2)):
                continue
            ext = max(vals) if g.players[s] == P1 else min(vals)
            exp = [a for (a, _), v in zip(ctl[s], vals) if v == ext]
            if len(exp) > 1:
                sp.cover("p1_tie" if g.players[s] == P1 else "p2_tie")
                if game == "rew_ties":
                    sp.cover("float_sum_tie")
            sp.prove(fin[s] == exp, "final strategy of state %d is %s, exact reward-optimal permitted actions %s" % (s, fin[s], exp))
            if g.players[s] == P1:
                sp.prove(set(fin[s]) <= set(rstrat[s]), "final strategy of state %d leaves its reachability strategy" % s)


# ------------------------------------------------------------------ C03: conditioning inside the pipeline
@harness("pipe.conditioning", props=["C03"], jobs=lambda tier, seed: [dict(game=g, args=a, _cost=1) for g, a in _stopping_instances(tier)],
         covers=["dead_removed", "p2_kept", "renormalised"], stubs=["logging -> sweep counter"],
         bounds="all stopping template instances (dead(K) family: every arrangement of dead / alive / tiny-valued / dead-but-connected "
                "successors); concrete numbers; the pipeline's own call sequence (check_game, init_states, solve_reachability, "
                "prune_reachability, prune_stochastich_game) is replayed with the real functions",
         desc="CONCRETE differential: the transition lists the real pipeline leaves at every state reachable from the initial state "
              "equal the reference conditioning of the input description (dead transitions gone, survivors in order with p/sum(alive), "
              "Player 2 untouched)")
def pipe_conditioning(sp, game, args):
    t = tad_pipe()
    g = build(game, args)
    desc = dict(rewards=[1 if r == G.SYM else r for r in g.rewards], players=list(g.players),
                transition_list=[list(x) for x in g.tl], final_states=list(g.finals))
    t.logging.reset(400)
    sg = t.StochasticGame(prune_states=True, **copy.deepcopy(desc))
    sg.check_game()
    state_list = sg.init_states()
    solver = t.Solver(threshold=10 ** (-6), state_list=state_list)
    try:
        strat, _ = solver.solve_reachability(sg.transition_list, sg.final_states, True)
    except ValueError as e:
        sp.prove("no solution" in str(e), "unexpected error %s" % e)
        return
    probs = [st.reach_probability for st in state_list]
    solver.prune_reachability(strat)
    solver.prune_stochastich_game()
    ref = G.condition(g.players, g.tl, probs, strat, True)
    for s in sorted(G.reach_from0(ref)):
        got = state_list[s].next_states
        sp.prove(len(got) == len(ref[s]), "state %d keeps %s, reference conditioning %s" % (s, got, ref[s]))
        for a, b in zip(got, ref[s]):
            sp.prove(a[1] == b[1] and (a[0] == b[0] if isinstance(b[0], str) else abs(a[0] - b[0]) <= 1e-12),
                     "state %d keeps %s, reference conditioning %s" % (s, got, ref[s]))
        for _, tgt in got:
            sp.prove(probs[tgt] != 0, "state %d keeps a transition into state %d of probability 0" % (s, tgt))
        if len(ref[s]) < len(g.tl[s]):
            sp.cover("dead_removed")
            if g.players[s] == PR and ref[s]:
                sp.cover("renormalised")
        if g.players[s] == P2:
            sp.cover("p2_kept")
            sp.prove(got == g.tl[s], "Player 2 state %d lost a transition" % s)


# ------------------------------------------------------------------ C01 / C04: acyclic templates with SYMBOLIC probabilities
def _acyclic_sym(name, sp):
    """(players, transition list with symbolic probabilities, finals)"""
    # probabilities in [1/500, 499/500]: values below the solver's threshold are a separate, recorded finding (KF-3)
    pr = lambda n: sp.real(n, core.Fraction(1, 500), core.Fraction(499, 500))
    if name == "fig55":
        p, q = pr("p"), pr("q")
        return ([P1, P2, P2, PR, PR, PR, PR, PR],
                [[("alfa", 1), ("beta", 2)], [("x", 3), ("y", 5)], [("x", 4), ("y", 6)], [(p, 6), (1 - p, 7)], [(q, 6), (1 - q, 7)],
                 [(1, 5)], [(1, 6)], [(1, 7)]], [6])
    if name == "p1_three":      # Player 1 over three chance states
        a, b, c = pr("a"), pr("b"), pr("c")
        return ([P1, PR, PR, PR, PR, PR], [[("a", 1), ("b", 2), ("c", 3)], [(a, 4), (1 - a, 5)], [(b, 4), (1 - b, 5)], [(c, 4), (1 - c, 5)],
                                            [(1, 4)], [(1, 5)]], [4])
    if name == "p2_three":
        a, b, c = pr("a"), pr("b"), pr("c")
        return ([P2, PR, PR, PR, PR, PR], [[("a", 1), ("b", 2), ("c", 3)], [(a, 4), (1 - a, 5)], [(b, 4), (1 - b, 5)], [(c, 4), (1 - c, 5)],
                                            [(1, 4)], [(1, 5)]], [4])
    if name == "chance_over_players":   # chance above a Player 1 and a Player 2 choice
        a, b, r = pr("a"), pr("b"), pr("r")
        return ([PR, P1, P2, PR, PR, PR, PR],
                [[(r, 1), (1 - r, 2)], [("u", 3), ("v", 4)], [("u", 3), ("v", 4)], [(a, 5), (1 - a, 6)], [(b, 5), (1 - b, 6)], [(1, 5)], [(1, 6)]], [5])
    raise KeyError(name)


def _backward(players, tl, finals):
    """exact values of an acyclic game by backward induction, as z3 terms"""
    n = len(players)
    val = {}

    def v(s):
        if s in val:
            return val[s]
        if s in finals:
            r = z3.RealVal(1)
        elif all(t == s for _, t in tl[s]):
            r = z3.RealVal(0)
        else:
            succ = [v(t) for _, t in tl[s]]
            if players[s] == P1:
                r = zmax(succ)
            elif players[s] == P2:
                r = zmin(succ)
            else:
                r = z3.Sum([to_real(p) * x for (p, _), x in zip(tl[s], succ)])
        val[s] = r
        return r
    return [v(s) for s in range(n)]


@harness("pipe.reach_symbolic", props=["C01", "C04", "C06"],
         jobs=lambda tier, seed: [dict(name=n, prune=p, _cost=30, _timeout_s=1500) for n in ("fig55", "p1_three", "p2_three", "chance_over_players")
                                  for p in (True, False)],
         covers=["returned"], stubs=["logging -> sweep counter", "max/min -> merging proxies"],
         bounds="four acyclic templates (6-8 states) with ALL chance probabilities symbolic reals in [1/500, 499/500]; reachability phase of the "
                "pipeline (real check_game, init_states, reverse_dfs, value_iteration_reachability, strategy extraction)",
         assumes=["exact-real arithmetic; round(x,6) modelled as a monotone function within 5e-7 of x"],
         desc="for every value of the probabilities at once: reported probabilities equal the backward-induction values of the acyclic "
              "game exactly; finals 1, sinks 0; reachability strategies are the exact optimal sets where competing values are equal or "
              "more than 1e-5 apart; 'no solution' iff pruning and the value of the initial state is 0")
def pipe_reach_symbolic(sp, name, prune):
    players, tl, finals = _acyclic_sym(name, sp)
    n = len(players)
    desc = dict(rewards=[0] * n, players=players, transition_list=tl, final_states=finals)
    kind, res = reach_phase(sp, desc, prune)
    exact = _backward(players, tl, finals)
    if kind == "nosol":
        sp.prove(z3.And(exact[0] == 0, prune), "'no solution' although the initial state has positive value or pruning is off")
        return
    sp.cover("returned")
    if prune:
        sp.prove(exact[0] != 0, "pruning on and the initial state has value 0, but no error was raised")
    probs, strat = res[3], res[1]
    for s in range(n):
        sp.prove(to_real(probs[s]) == exact[s], "reported probability of state %d is not its exact value" % s)
    conds = []
    for s in range(n):
        if players[s] != PR:
            ts = sorted({t for _, t in tl[s]})
            for a, b in itertools.combinations(ts, 2):
                d = exact[a] - exact[b]
                conds.append(z3.Or(d == 0, d > rat(1e-5), -d > rat(1e-5)))
    if conds:
        if sp.check(z3.And(conds)) != z3.sat:
            return
        sp.assume(z3.And(conds))
    for s in range(n):
        if players[s] == PR:
            sp.prove(strat[s] is None, "chance state %d has a strategy" % s)
            continue
        succ = [exact[t] for _, t in tl[s]]
        ext = zmax(succ) if players[s] == P1 else zmin(succ)
        sp.prove(strat[s] == [a for a, _ in tl[s] if a in strat[s]], "strategy of state %d not in transition order" % s)
        for (a, t) in tl[s]:
            if a in strat[s]:
                sp.prove(exact[t] == ext, "reachability strategy of state %d lists %r, which is not optimal" % (s, a))
            else:
                sp.prove(exact[t] != ext, "reachability strategy of state %d misses the optimal action %r" % (s, a))


# ------------------------------------------------------------------ C02 / C03: conditioning with SYMBOLIC probabilities and rewards (acyclic)
def _symprob_jobs(tier, seed):
    arr = [["D", "A"], ["A", "D"], ["D", "D", "A"], ["D", "A", "D"], ["A", "D", "D"], ["A", "D", "B"], ["E", "A", "D"], ["D", "F", "D"]]
    if tier == "thorough":
        arr += [list(x) for x in itertools.product("DAF", repeat=3)] + [["D", "A", "D", "B"], ["A", "D", "D", "F"], ["D", "D", "A", "D"]]
    return [dict(succ=a, prune=p, kind=k, _cost=20, _timeout_s=1500) for a in arr for p in (True, False) for k in (PR, P1)]


@harness("pipe.rewards_symbolic_probs", props=["C02", "C03"], jobs=_symprob_jobs, covers=["solved"],
         stubs=["logging -> sweep counter", "max/min -> merging proxies"],
         bounds="chance or Player 1 initial state with 2-4 successors (dead sink / dead-but-connected / alive chance / final in 8 "
                "(thorough 38) arrangements); the initial chance state's distribution (>= 1/100 each, summing to 1) or, under a Player 1 initial state, the "
                "two alive chance states' success probabilities (in [1/100, 99/100]) are SYMBOLIC, and so are three rewards in {0} u [1/8,4]",
         assumes=["exact-real arithmetic", "probabilities >= 1/100 (values below the threshold: KF-3)"],
         desc="real solve(): for all probabilities and rewards at once the reported rewards equal the unique solution of the "
              "reference-conditioned game's equations, i.e. the renormalisation by the surviving mass is right for every distribution")
def pipe_rewards_symbolic_probs(sp, succ, prune, kind=PR):
    g = G.dead_family(kind, succ)
    desc = g.description(sp)
    K = len(succ)
    gtl = [list(x) for x in g.tl]
    if kind == PR:
        ps = [sp.real("p%d" % i, core.Fraction(1, 100), 1) for i in range(K)]
        sp.assume(sp.eq(vsum(ps), 1))
        gtl[0] = [(ps[i], g.tl[0][i][1]) for i in range(K)]
    else:
        # Player 1 on top: the two alive chance states reach the final state with symbolic probabilities a and b
        # (kept concrete under a symbolic distribution: the product p_i/mass * a made z3 give up on some instances)
        a = sp.real("a", core.Fraction(1, 100), core.Fraction(99, 100))
        b = sp.real("b", core.Fraction(1, 100), core.Fraction(99, 100))
        gtl[3] = [(a, 5), (1 - a, 1)]
        gtl[4] = [(b, 5), (1 - b, 1)]
    for i in (0, 3, 4):
        desc["transition_list"][i] = list(gtl[i])
    kind, res = solve(sp, desc, prune)
    if kind == "nosol":
        sp.prove(prune and all(k in "DCE" for k in succ), "'no solution' although some successor of the initial state is alive")
        return
    sp.cover("solved")
    rewards, probs, rstrat = res[2], res[3], res[1]
    ctl = G.condition(g.players, gtl, probs, rstrat, prune)
    states = sorted(G.reach_from0(ctl)) if prune else list(range(g.n))
    w, cons = G.bellman_rewards(g.players, ctl, states, desc["rewards"])
    sp.add(cons)
    if sp.check() != z3.sat:
        raise core.Inconclusive("reward oracle has no solution on this path")
    sp.model = None
    for s in states:
        sp.prove(zabs(to_real(rewards[s]) - w[s]) <= rat(TOL), "expected reward of state %d differs from the conditioned game's value" % s)
    if prune and kind == PR:
        alive = [i for i in range(K) if succ[i] in "ABFT"]
        mass = vsum([ps[i] for i in alive])
        # C03 (iii) through the pipeline: reported reward of the initial state = r0 + sum p_i/mass * w_i
        sp.prove(zabs(to_real(rewards[0]) - (to_real(desc["rewards"][0]) + z3.Sum([to_real(ps[i]) / to_real(mass) * w[g.tl[0][i][1]] for i in alive])))
                 <= rat(TOL), "initial state's reward is not the mass-renormalised average of the surviving successors")
