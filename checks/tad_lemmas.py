"""Per-node lemmas on the real methods of tad.py (DESIGN 3.1): one arbitrary node of
out-degree K in an arbitrary game.  Successor indices are case-split up to renaming of
the (interchangeable) neighbours; all values, rewards and probabilities are solver
variables constrained only by the representation invariants."""
import itertools

import z3

from symex.runner import harness
from symex.core import SymBool, SymReal, to_real, rat
from .common import *

KINDS = (P1, P2, PR)


def succ_pattern(sp, K):
    """successor indices up to renaming of neighbours: 0 is the node itself, a new
    neighbour always gets the next unused index (restricted growth strings)."""
    succ = []
    used = 0
    for i in range(K):
        c = sp.choice("succ%d" % i, used + 2)
        succ.append(c)
        used = max(used, c)
    return succ


def _kjobs(kmax_quick, kmax_thorough, extra=None):
    def jobs(tier, seed):
        out = []
        for kind in KINDS:
            for K in range(1, (kmax_quick if tier == "quick" else kmax_thorough) + 1):
                d = dict(kind=kind, K=K, _cost=4 ** K)
                if extra:
                    for e in extra(tier):
                        out.append(dict(d, **e))
                else:
                    out.append(d)
        return out
    return jobs


def _focus(sp, kind, K, succ, reward=0, labels=None):
    n = K + 1
    if kind == PR:
        ps = probs(sp, "p", K)
        ns = [(ps[i], succ[i]) for i in range(K)]
    else:
        ps = None
        labels = labels or ["a%d" % i for i in range(K)]
        ns = [(labels[i], succ[i]) for i in range(K)]
    node = mk_node(kind, 0, reward, ns, n)
    return node, ps


class Stub:
    """a neighbour: only the attributes node methods are entitled to read"""

    def __init__(self, idx):
        self.idx = idx


# --------------------------------------------------------------------- C01: R1-R4
@harness("tad.reach_step", props=["C01"], jobs=_kjobs(3, 4),
         covers=["self_loop", "dup_target", "kind_Player 1", "kind_Player 2", "kind_Probabilistic"],
         bounds="one node of out-degree K<=4 (quick 3) in a game of any size; successor values any reals in [0,1]; "
                "probabilities any reals >0 summing to 1; all coincidence patterns of successors incl. self-loops",
         assumes=["Inv_reach: 0<=v<=1 at every state"],
         desc="real value_iteration_reach of the three node kinds returns max(0,.)/min(1,.)/sum p*v of the successor "
              "values; from any under-approximation of a Bellman fixed point the step stays below it and inside [0,1]")
def reach_step(sp, kind, K):
    succ = succ_pattern(sp, K)
    n = K + 1
    node, ps = _focus(sp, kind, K, succ)
    v = [sp.real("v%d" % i, 0, 1) for i in range(n)]
    stubs = GuardedList([node] + [Stub(i) for i in range(1, n)]).allow(succ)
    for i in range(n):
        list.__getitem__(stubs, i).reach_probability = v[i]
    out = node.value_iteration_reach(stubs)
    sv = [v[s] for s in succ]
    sp.cover("kind_" + kind)
    if 0 in succ:
        sp.cover("self_loop")
    if len(set(succ)) < K:
        sp.cover("dup_target")
    sp.note("succ", succ)
    if kind == P1:
        sp.prove(sp.eq(out, vmax(sv)), "Player 1 step is not the maximum successor value")
    elif kind == P2:
        sp.prove(sp.eq(out, vmin(sv)), "Player 2 step is not the minimum successor value")
    else:
        sp.prove(sp.eq(out, vsum([ps[i] * sv[i] for i in range(K)])), "chance step is not sum p*v")
    sp.prove(b_and(sp.le(0, out), sp.le(out, 1)), "step leaves [0,1]")
    # R4: V a fixed point at this node, v <= V  =>  step(v) <= V[node]
    V = [sp.real("V%d" % i, 0, 1) for i in range(n)]
    SV = [V[s] for s in succ]
    if kind == P1:
        fix = vmax(SV)
    elif kind == P2:
        fix = vmin(SV)
    else:
        fix = vsum([ps[i] * SV[i] for i in range(K)])
    sp.assume(b_and(sp.eq(V[0], fix), *[sp.le(v[i], V[i]) for i in range(n)]))
    sp.prove(sp.le(out, V[0]), "step overshoots a fixed point it started below")


# ----------------------------------------------------------------- C02/C14: W1-W3, W5, X1-X3
@harness("tad.reward_step", props=["C02", "C14"], jobs=_kjobs(3, 4),
         covers=["self_loop", "dup_target", "kind_Player 1", "kind_Player 2", "kind_Probabilistic"],
         bounds="as tad.reach_step; rewards and the three tracked quantities any reals >= 0; also the empty transition list",
         assumes=["Inv_rew: rewards >= 0 and tracked quantities >= 0; reach probabilities in [0,1]",
                  "round(x, 6) modelled as a monotone function within 5e-7 of x (weaker than the real function)"],
         desc="real value_iteration_rewards of the three node kinds: first component reward+max/min/sum; the two "
              "diagnostic components follow an arg-max (arg-min) successor / the cheapest reachability-minimal action; "
              "(0,0,0) on an emptied state; from below a fixed point the step stays below it")
def reward_step(sp, kind, K):
    succ = succ_pattern(sp, K)
    n = K + 1
    r = sp.real("r", 0, None)
    node, ps = _focus(sp, kind, K, succ, reward=r)
    w = [sp.real("w%d" % i, 0, None) for i in range(n)]       # expected_rewards
    a = [sp.real("a%d" % i, 0, None) for i in range(n)]       # expected_rewards_min_reach
    q = [sp.real("q%d" % i, 0, 1) for i in range(n)]          # expected_reach_min_rewards
    v = [sp.real("v%d" % i, 0, 1) for i in range(n)]          # reach_probability
    lst = [node] + [Stub(i) for i in range(1, n)]
    for i in range(n):
        lst[i].expected_rewards = w[i]
        lst[i].expected_rewards_min_reach = a[i]
        lst[i].expected_reach_min_rewards = q[i]
        lst[i].reach_probability = v[i]
    stubs = GuardedList(lst).allow(succ)
    o1, o2, o3 = node.value_iteration_rewards(stubs)
    sp.cover("kind_" + kind)
    if 0 in succ:
        sp.cover("self_loop")
    if len(set(succ)) < K:
        sp.cover("dup_target")
    sw = [w[s] for s in succ]
    if kind == PR:
        sp.prove(sp.eq(o1, r + vsum([ps[i] * sw[i] for i in range(K)])), "chance reward step")
        sp.prove(sp.eq(o2, r + vsum([ps[i] * a[succ[i]] for i in range(K)])), "chance rewards-under-min-reach step")
        sp.prove(sp.eq(o3, vsum([ps[i] * q[succ[i]] for i in range(K)])), "chance reach-under-min-reward step")
        fix_op = lambda W: r + vsum([ps[i] * W[succ[i]] for i in range(K)])
    elif kind == P1:
        m = vmax(sw)
        sp.prove(sp.eq(o1, r + m), "Player 1 reward step is not reward + max")
        sp.prove(b_or(*[b_and(sp.eq(w[s], m), sp.eq(o2, r + a[s]), sp.eq(o3, q[s])) for s in succ]),
                 "Player 1 diagnostics do not follow an arg-max successor")
        fix_op = lambda W: r + vmax([W[s] for s in succ])
    else:
        m = vmin(sw)
        sp.prove(sp.eq(o1, r + m), "Player 2 reward step is not reward + min")
        sp.prove(b_or(*[b_and(sp.eq(w[s], m), sp.eq(o3, q[s])) for s in succ]),
                 "Player 2 reach-under-min-reward does not follow an arg-min successor")
        # cheapest among the reachability-minimal actions (rounded to 6 digits, as reported)
        rv = [round(v[s], 6) for s in succ]
        rm = vmin(rv)
        cands = [b_and(sp.eq(rv[i], rm), sp.eq(o2, r + a[succ[i]])) for i in range(K)]
        lower = [b_implies(sp.eq(rv[i], rm), sp.le(o2, r + a[succ[i]])) for i in range(K)]
        sp.prove(b_and(b_or(*cands), *lower),
                 "Player 2 rewards-under-min-reach is not reward + cheapest reachability-minimal successor")
        fix_op = lambda W: r + vmin([W[s] for s in succ])
    # W5: from below
    W = [sp.real("W%d" % i, 0, None) for i in range(n)]
    sp.assume(b_and(sp.eq(W[0], fix_op(W)), *[sp.le(w[i], W[i]) for i in range(n)]))
    sp.prove(sp.le(o1, W[0]), "reward step overshoots a fixed point it started below")


@harness("tad.reward_step_empty", props=["C02", "C14"],
         jobs=lambda tier, seed: [dict(kind=k) for k in KINDS],
         bounds="an emptied state of each kind", desc="a state whose transitions were pruned away is worth (0,0,0)")
def reward_step_empty(sp, kind):
    r = sp.real("r", 0, None)
    node = mk_node(kind, 0, r, [], 1)
    node.expected_rewards = sp.real("w", 0, None)
    out = node.value_iteration_rewards(GuardedList([node]).allow([]))
    sp.prove(b_and(*[sp.eq(x, 0) for x in out]), "emptied state is not worth 0")
    sp.prove(len(out) == 3, "three tracked quantities")


# ------------------------------------------------------------------- C04/C05: S1, S2, T1
def _digits(tier):
    return [dict(d=6), dict(d=1)] if tier == "quick" else [dict(d=d) for d in (1, 2, 3, 6, 9)]


def _strat_jobs(tier, seed):
    out = []
    for what in ("reach", "rew"):
        for kind in (P1, P2):
            for K in range(1, (3 if tier == "quick" else 4) + 1):
                for e in _digits(tier):
                    if K == 4 and e["d"] not in (6,):
                        continue
                    out.append(dict(what=what, kind=kind, K=K, _cost=6 ** K, **e))
    if tier == "thorough":
        for kind in (P1, P2):
            out.append(dict(what="reach", kind=kind, K=5, d=6, _cost=6 ** 5, _timeout_s=3000))
    return out


@harness("tad.strategies", props=["C04", "C05"], jobs=_strat_jobs,
         covers=["tie", "unique", "all_zero", "self_loop", "dup_target"],
         bounds="K<=4 (quick 3; thorough also K=5 for the reachability extractors) actions, successor values any reals (reach: [0,1]; rewards: >=0), rounding digits "
                "d in {1,2,3,6,9} (quick {1,6})",
         assumes=["round(x, d) modelled as a monotone function within half a unit of the d-th decimal of x"],
         desc="real get_best/worst_strategies_reachability/_total_rewards: in transition order, exactly the actions whose "
              "rounded successor value is extremal; = the exact arg-max/arg-min set when values are equal or > 10^-d apart")
def strategies(sp, what, kind, K, d):
    succ = succ_pattern(sp, K)
    n = K + 1
    labels = ["a%d" % i for i in range(K)]
    node, _ = _focus(sp, kind, K, succ, labels=labels)
    hi = 1 if what == "reach" else None
    x = [sp.real("x%d" % i, 0, hi) for i in range(n)]
    lst = [node] + [Stub(i) for i in range(1, n)]
    for i in range(n):
        if what == "reach":
            lst[i].reach_probability = x[i]
        else:
            lst[i].expected_rewards = x[i]
    stubs = GuardedList(lst).allow(succ)
    meth = {("reach", P1): "get_best_strategies_reachability", ("reach", P2): "get_worst_strategies_reachability",
            ("rew", P1): "get_best_strategies_total_rewards", ("rew", P2): "get_worst_strategies_total_rewards"}[(what, kind)]
    got = getattr(node, meth)(stubs, d)
    rx = [round(x[s], d) for s in succ]          # same terms as inside the method (functional consistency)
    ext = vmax(rx) if kind == P1 else vmin(rx)
    sp.prove(got == [l for l in labels if l in got], "strategy not in transition order / repeats an action")
    for i in range(K):
        if labels[i] in got:
            sp.prove(sp.eq(rx[i], ext), "listed action %d is not extremal" % i)
        else:
            sp.prove(b_not(sp.eq(rx[i], ext)), "extremal action %d is missing" % i)
    sp.cover("tie" if len(got) > 1 else "unique")
    if 0 in succ:
        sp.cover("self_loop")
    if len(set(succ)) < K:
        sp.cover("dup_target")
    # corollary: separated or equal values -> exact optimal set
    sx = [x[s] for s in succ]
    gap = core.Fraction(1, 10 ** d)
    sep = []
    for i, j in itertools.combinations(range(K), 2):
        dij = sx[i] - sx[j]
        sep.append(b_or(sp.eq(sx[i], sx[j]), dij > gap, -dij > gap))
    if K > 1:
        sp.assume(b_and(*sep))
    xe = vmax(sx) if kind == P1 else vmin(sx)
    for i in range(K):
        sp.prove(b_iff(labels[i] in got, sp.eq(sx[i], xe)), "with separated values the strategy is not the exact optimal set")
    if K > 1 and all(labels[i] in got for i in range(K)):
        if bool(b_and(*[sp.eq(t, 0) for t in sx])):
            sp.cover("all_zero")


@harness("tad.strategies_empty", props=["C05"], jobs=lambda tier, seed: [dict(kind=P1), dict(kind=P2)],
         bounds="an emptied player state", desc="final strategy of an emptied player state is the empty list")
def strategies_empty(sp, kind):
    node = mk_node(kind, 0, sp.real("r", 0, None), [], 1)
    meth = "get_best_strategies_total_rewards" if kind == P1 else "get_worst_strategies_total_rewards"
    got = getattr(node, meth)(GuardedList([node]).allow([]), 6)
    sp.prove(got == [], "emptied state has a non-empty final strategy")


def _table_jobs(tier, seed):
    n = 3
    return [dict(kinds=list(ks), which=w) for ks in itertools.product(KINDS, repeat=n) for w in ("reach", "rew")]


@harness("tad.strategy_table", props=["C04", "C05"], jobs=_table_jobs,
         bounds="3 states of every kind combination, each with two transitions, all values symbolic",
         desc="real Solver._get_reachability_strategies / _get_total_rewards_strategies: None exactly for chance states, "
              "the state's own extraction otherwise, at the state's own index")
def strategy_table(sp, kinds, which):
    t = tadm()
    n = len(kinds)
    states = []
    for s in range(n):
        if kinds[s] == PR:
            ns = [(0.5, (s + 1) % n), (0.5, (s + 2) % n)]
        else:
            ns = [("l%d" % s, (s + 1) % n), ("r%d" % s, (s + 2) % n)]
        states.append(mk_node(kinds[s], s, 0, ns, n))
    for s in range(n):
        states[s].reach_probability = sp.real("v%d" % s, 0, 1)
        states[s].expected_rewards = sp.real("w%d" % s, 0, None)
    solver = t.Solver(state_list=states, threshold=10 ** (-6))
    sp.prove(solver.floor == 6, "rounding digits for threshold 1e-6")
    if which == "reach":
        got = solver._get_reachability_strategies()
    else:
        got = solver._get_total_rewards_strategies()
    sp.prove(len(got) == n, "one entry per state")
    for s in range(n):
        if kinds[s] == PR:
            sp.prove(got[s] is None, "chance state has a strategy")
        else:
            meth = {("reach", P1): "get_best_strategies_reachability", ("reach", P2): "get_worst_strategies_reachability",
                    ("rew", P1): "get_best_strategies_total_rewards", ("rew", P2): "get_worst_strategies_total_rewards"}[(which, kinds[s])]
            exp = getattr(states[s], meth)(states, 6)
            sp.prove(got[s] == exp, "entry %d is not that state's own extraction" % s)
            sp.prove(set(got[s]) <= {"l%d" % s, "r%d" % s} and len(got[s]) >= 1, "entry %d lists foreign actions" % s)


@harness("tad.floor", props=["C04"], jobs=lambda tier, seed: [dict(k=k) for k in range(1, 10)],
         bounds="threshold 10^-k, k=1..9 (concrete: math.log evaluated natively)", sentinel=True,
         desc="Solver.__init__: number of rounding digits equals k for threshold 10^-k")
def floor_digits(sp, k):
    t = tadm()
    s = t.Solver(state_list=[], threshold=10 ** (-k))
    sp.prove(s.floor == k, "floor digits for threshold 1e-%d is %r" % (k, s.floor))
