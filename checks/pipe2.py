"""C10 (repeatability / description intact), C13 (presentation independence), C09 (malformed games)
on the real StochasticGame.solve(), reusing the pipeline templates."""
import copy
import itertools
import random
from fractions import Fraction

import z3

from symex import core
from symex.core import to_real, zabs, rat, Violation
from symex.runner import harness
from . import games as G
from .common import *
from .pipe import (tad_pipe, build, oracle, solve, reach_phase, _stopping_instances, _reach_only_instances, TOL, SEP, THR,
                   SweepBudget)


def _snapshot(desc):
    return dict(rewards=list(desc["rewards"]), players=list(desc["players"]),
                transition_list=[[tuple(t) for t in tr] for tr in desc["transition_list"]],
                final_states=list(desc["final_states"]))


def _same_description(sp, desc, snap, when):
    sp.prove(len(desc["rewards"]) == len(snap["rewards"]) and all(a is b for a, b in zip(desc["rewards"], snap["rewards"])),
             "rewards changed " + when)
    sp.prove(desc["players"] == snap["players"], "players changed " + when)
    sp.prove(desc["final_states"] == snap["final_states"], "final states changed " + when)
    tl, st = desc["transition_list"], snap["transition_list"]
    same = isinstance(tl, list) and len(tl) == len(st) and all(
        isinstance(a, list) and len(a) == len(b) and all(type(x) is tuple and x == y for x, y in zip(a, b)) for a, b in zip(tl, st))
    sp.prove(same, "transition lists changed %s: %s" % (when, tl))


def _equal_results(sp, a, b, what):
    sp.prove(a[0] == b[0], "%s: outcome differs" % what)
    if a[0] != "ok":
        return
    ra, rb = a[1], b[1]
    for k, name in ((0, "final strategies"), (1, "reachability strategies"), (3, "probabilities"), (4, "reach sweeps"), (5, "reward sweeps")):
        sp.prove(ra[k] == rb[k], "%s: %s differ: %s vs %s" % (what, name, ra[k], rb[k]))
    for k, name in ((2, "rewards"), (6, "probabilities under minimal reward"), (7, "rewards under minimal reachability")):
        sp.prove(len(ra[k]) == len(rb[k]), "%s: %s length" % (what, name))
        for x, y in zip(ra[k], rb[k]):
            sp.prove(sp.eq(x, y), "%s: %s differ" % (what, name))


def _rep_jobs(tier, seed):
    jobs = []
    inst = _stopping_instances(tier) + [("nosol", [w]) for w in ("forced", "nopath", "chance", "walled")] + [("paid_final", [])]
    for g, a in inst:
        jobs.append(dict(game=g, args=a, nsym=0, steps=3, _cost=2))
    sym = [("fig55", [0.5, 0.75]), ("dead", [P1, ["D", "A"]]), ("dead", [PR, ["D", "A"]]), ("dead", [PR, ["A", "D", "D"]]),
           ("dead", [P1, ["D", "D", "B"]]), ("p2choice", [[0, 1, 2], P1])]
    if tier == "thorough":
        sym += [("cyc", [1 / 1024, P1]), ("lex", []), ("dead", [PR, ["D", "F", "D"], True])]
    for g, a in sym:
        jobs.append(dict(game=g, args=a, nsym=2, steps=2, _cost=10))
    return jobs


@harness("pipe.repeat", props=["C10"], jobs=_rep_jobs, covers=["same_object", "fresh_object", "mixed_modes", "nosol_then_solve"],
         stubs=["logging -> sweep counter", "max/min -> merging proxies"],
         bounds="every stopping template instance x every schedule of 3 solves (same object / fresh object on the same "
                "description x pruned / unpruned; rewards concrete) and 6 (thorough 9) instances with 2 symbolic rewards x every "
                "schedule of 2 solves",
         desc="real solve() called repeatedly on one description: after every solve the caller's rewards, players, transition "
              "lists (every inner list and tuple) and final states are unchanged, and any two solves with the same pruning flag "
              "return identical results (symbolic rewards: solver equality)")
def pipe_repeat(sp, game, args, nsym, steps):
    t = tad_pipe()
    g = build(game, args)
    desc = g.description(sp, nsym=nsym)
    snap = _snapshot(desc)
    sg = None
    results = {}
    kinds = set()
    for k in range(steps):
        fresh = sp.flag("fresh%d" % k) if k > 0 else True
        prune = sp.flag("prune%d" % k)
        kinds.add("fresh_object" if fresh and k > 0 else "same_object" if k > 0 else "first")
        t.logging.reset(400)
        if fresh or sg is None:
            sg = t.StochasticGame(prune_states=prune, **desc)      # the caller's own lists, no copy
        else:
            sg.prune_states = prune
        try:
            out = ("ok", sg.solve())
        except ValueError as e:
            if "no solution" not in str(e):
                raise
            out = ("nosol", str(e))
        except SweepBudget as e:
            raise Violation("value iteration did not stop on solve %d of the schedule: %s" % (k + 1, e), sp.current_assignment())
        _same_description(sp, desc, snap, "after solve %d of the schedule" % (k + 1))
        if prune in results:
            _equal_results(sp, results[prune], out, "solve %d repeats an earlier solve (pruning %s)" % (k + 1, prune))
            if results[prune][0] == "nosol":
                sp.cover("nosol_then_solve")
        else:
            results[prune] = out
    for c in kinds:
        sp.cover(c)
    if len(results) == 2:
        sp.cover("mixed_modes")


# ------------------------------------------------------------------------------------------ C13
def _present(g, desc, perm, order_mode, rename):
    """the same game written down differently: state s becomes perm[s]; transition order per state changed;
    actions renamed injectively"""
    n = g.n
    inv = [0] * n
    for s, ps in enumerate(perm):
        inv[ps] = s
    labels = sorted({x for tr in desc["transition_list"] for x, _ in tr if isinstance(x, str)})
    if rename == 2 and labels:
        # an injective renaming that maps one action to the empty string (a valid action name)
        ren = lambda a: "" if a == labels[0] else "A_" + a[::-1] + "_z"
    elif rename:
        ren = lambda a: "A_" + a[::-1] + "_z"
    else:
        ren = lambda a: a
    tl2, pl2, rw2 = [None] * n, [None] * n, [None] * n
    for s in range(n):
        tr = [((ren(x) if isinstance(x, str) else x), perm[t]) for x, t in desc["transition_list"][s]]
        if order_mode == 1:
            tr = tr[::-1]
        elif order_mode == 2:
            tr = tr[1:] + tr[:1]
        tl2[perm[s]] = tr
        pl2[perm[s]] = desc["players"][s]
        rw2[perm[s]] = desc["rewards"][s]
    fin2 = [perm[f] for f in desc["final_states"]]
    if order_mode:
        fin2 = fin2[::-1]
    return dict(rewards=rw2, players=pl2, transition_list=tl2, final_states=fin2), ren


def _inside_cell(x, digits=6, margin=Fraction(1, 10 ** 8)):
    """x is further than `margin` from every boundary between two `digits`-digit rounding cells"""
    u = Fraction(1, 10 ** digits)
    r = (Fraction(x) - u / 2) % u
    return margin < r < u - margin


def _perms(n, k, rnd):
    ids = list(range(1, n))
    out = [[0] + ids[::-1]]
    if n > 2:
        out.append([0] + ids[1:] + ids[:1])
    seen = {tuple(p) for p in out}
    tries = 0
    while len(out) < k and tries < 200:
        tries += 1
        p = ids[:]
        rnd.shuffle(p)
        p = [0] + p
        if tuple(p) not in seen and p != list(range(n)):
            seen.add(tuple(p))
            out.append(p)
    return out


def _pres_jobs(tier, seed):
    rnd = random.Random(seed)
    jobs = []
    if tier == "quick":
        inst = [("fig55", [0.5, 0.75]), ("fig55", [0.25, 0.25]), ("cyc", [1 / 64, P1]), ("cyc", [1 / 1024, P2]), ("p2choice", [[0, 1, 2], P1]),
                ("lex", []), ("ties", ["quarter"]), ("ties", ["tenths"]), ("ties_p2", []), ("unreach", ["p2"])]
        inst += [("dead", [k, list(sk)]) for k in (P1, PR) for sk in itertools.product("DCABF", repeat=2)]
        inst += [("dead", [k, list(sk)]) for k in (P1, PR) for sk in (("D", "D", "A"), ("D", "A", "D"), ("A", "D", "D"), ("D", "F", "A"))]
        inst += [("orphans", [o]) for o in (0, 1, 2)]
        inst += [("order_sum", []), ("zero_dead", []), ("big_rewards", [P1, [0, 1, 2]]), ("big_rewards", [P2, [0, 1, 2]]), ("dup_actions", []), ("p1_final", [P1]), ("decimals", [])]
        inst += [("near_chain", [k, list(o)]) for k in (P1, P2) for o in ((0, 1, 2), (1, 0, 2))]
        nperm = 2
    else:
        inst = _stopping_instances("thorough")
        # two solves per path: the dearest templates (two cycles, return probability 1/8, out-degree 4) do not finish
        inst = [x for x in inst if not (x[0] == "dead" and len(x[1][1]) == 4) and x[0] != "cyc2" and not (x[0] == "cyc" and x[1][0] > 1 / 16)]
        inst += [("near_chain", [k, list(o)]) for k in (P1, P2) for o in itertools.permutations(range(3))]
        nperm = 4
    for g, a in inst:
        n = build(g, a).n
        for perm in _perms(n, nperm, rnd):
            for om in (1, 2):
                jobs.append(dict(game=g, args=a, perm=perm, order_mode=om, rename=True, nsym=(1 if g in ("cyc", "lex") else 2),
                                 _cost=5, _timeout_s=1500))
        jobs.append(dict(game=g, args=a, perm=list(range(n)), order_mode=1, rename=False, nsym=1, _cost=5, _timeout_s=1500))
        jobs.append(dict(game=g, args=a, perm=list(range(n)), order_mode=0, rename=2, nsym=1, _cost=5, _timeout_s=1500))
    for g, a in _reach_only_instances(tier):
        n = build(g, a).n
        for perm in _perms(n, nperm, rnd):
            jobs.append(dict(game=g, args=a, perm=perm, order_mode=1, rename=True, nsym=0, _cost=1))
    return jobs


@harness("pipe.present", props=["C13"], jobs=_pres_jobs, covers=["solved", "nosol", "renumbered", "reordered"],
         stubs=["logging -> sweep counter", "max/min -> merging proxies"],
         bounds="template instances x state permutations fixing 0 (reversal, rotation, seeded others) x transition orders "
                "(reversed, rotated) x an injective action renaming x both pruning modes; 1-2 symbolic rewards per instance",
         assumes=["strategies compared as sets only where the oracle's competing values are equal/separated (C04/C05 side condition)"],
         desc="real solve() on a description and on its re-presentation in the same path: same solvable/no-solution outcome; "
              "probabilities and rewards agree up to the renumbering within tolerance (finals/pathless exactly); strategies agree "
              "up to the renaming")
def pipe_present(sp, game, args, perm, order_mode, rename, nsym):
    g = build(game, args)
    exact, T = oracle(game, args)
    Tf = float(T) if T is not None else 40.0
    reach_only = game in ("ec", "finals", "nosol") and not g.stopping or game == "finals"
    if game in ("ec", "finals"):
        desc = dict(rewards=[0] * g.n, players=list(g.players), transition_list=[list(x) for x in g.tl], final_states=list(g.finals))
    else:
        desc = g.description(sp, nsym=nsym)
    desc2, ren = _present(g, desc, perm, order_mode, rename)
    if perm != list(range(g.n)):
        sp.cover("renumbered")
    sp.cover("reordered")
    can = G.has_path(g.tl, g.finals)
    run = reach_phase if game == "finals" else solve
    for prune in (True, False):
        k1, r1 = run(sp, desc, prune)
        k2, r2 = run(sp, desc2, prune)
        sp.prove(k1 == k2, "solvability differs between the two presentations (pruning %s): %s vs %s" % (prune, k1, k2))
        if k1 != "ok":
            sp.cover("nosol")
            continue
        sp.cover("solved")
        for s in range(g.n):
            a, b = r1[3][s], r2[3][perm[s]]
            if s in g.finals or s not in can:
                sp.prove(a == b, "probability of final/pathless state %d differs: %r vs %r" % (s, a, b))
            else:
                sp.prove(abs(a - b) <= 4 * THR * max(Tf, 1), "probability of state %d differs: %r vs %r" % (s, a, b))
        # reachability strategies: sets after renaming, where exact values are equal or separated
        for s in range(g.n):
            if g.players[s] == PR:
                sp.prove(r2[1][perm[s]] is None and r2[0][perm[s]] is None, "chance state got a strategy")
                continue
            vals = [exact[t] for _, t in g.tl[s]]
            # (acyclic templates compute their values exactly up to float noise: there a value well inside a rounding cell
            #  is rounded the same way in every presentation, so closer values may compete too)
            if all(x == y or abs(x - y) > 1e-5 for x, y in itertools.combinations(vals, 2)) or \
                    (g.acyclic() and all(_inside_cell(x) for x in vals)):
                sp.prove(sorted(ren(x) for x in r1[1][s]) == sorted(r2[1][perm[s]]),
                         "reachability strategy of state %d differs: %s vs %s" % (s, r1[1][s], r2[1][perm[s]]))
        if game in ("ec", "finals"):
            continue
        # rewards / final strategies for states reachable in the conditioned game
        ctl = G.condition(g.players, g.tl, r1[3], r1[1], prune)
        states = sorted(G.reach_from0(ctl)) if prune else list(range(g.n))
        for s in range(g.n):
            sp.prove(sp.eq(r1[2][s], r2[2][perm[s]], 2 * TOL), "expected reward of state %d differs between presentations" % s)
            if g.players[s] != PR and s not in states:
                # states cut off by the conditioning: emptied or not, the same in both presentations
                sp.prove((len(r1[0][s]) == 0) == (len(r2[0][perm[s]]) == 0),
                         "state %d (cut off by the conditioning) has a final strategy in one presentation only" % s)
        w, cons = G.bellman_rewards(g.players, ctl, states, desc["rewards"], tag="w%d_" % int(prune))
        sp.add(cons)
        conds = []
        for s in states:
            if g.players[s] != PR:
                ts = sorted({t for _, t in ctl[s]})
                for a, b in itertools.combinations(ts, 2):
                    d = w[a] - w[b]
                    if g.acyclic():
                        conds.append(z3.Or(d == 0, d > rat(SEP), -d > rat(SEP)))
                    else:
                        conds.append(z3.Or(z3.And(w[a] == 0, w[b] == 0), d > rat(SEP), -d > rat(SEP)))
        if conds:
            if sp.check(z3.And(conds)) != z3.sat:
                continue
            sp.assume(z3.And(conds))
        for s in states:
            if g.players[s] != PR:
                sp.prove(sorted(ren(x) for x in r1[0][s]) == sorted(r2[0][perm[s]]),
                         "final strategy of state %d differs: %s vs %s" % (s, r1[0][s], r2[0][perm[s]]))


# ------------------------------------------------------------------------------------------ C09
RULES = ["tl_len", "rew_len", "neg_reward", "bad_player", "final_range", "succ_range", "no_transitions", "not_list",
         "not_tuple", "tuple_len", "action_type", "prob_type", "succ_type", "no_final"]


def _mal_jobs(tier, seed):
    bases = [("fig55", [0.5, 0.75]), ("cyc", [1 / 64, P1]), ("p2choice", [[0, 1, 2], P1])]
    if tier == "thorough":
        bases += [("dead", [PR, ["D", "A", "F"]]), ("dead", [P1, ["E", "T"]]), ("unreach", ["p2"]), ("orphans", [1]), ("ties", ["tenths"]),
                  ("lex", [])]
    return [dict(game=g, args=a, rule=r, prune=p, _cost=1) for g, a in bases for r in RULES for p in (True, False)]


@harness("pipe.malformed", props=["C09"], jobs=_mal_jobs, covers=["rejected"],
         stubs=["logging -> sweep counter"],
         bounds="3 (thorough 9) well-formed base games (n<=8) x 14 documented rules x EVERY position (state, transition, tuple slot) x bad "
                "values: out-of-range indices and negative rewards are unconstrained solver variables (x<0 or x>=n; r<0), types "
                "from a menu; both pruning modes",
         desc="real solve() on a description with one well-formedness rule broken at a symbolic position: raises ValueError "
              "(and nothing else) on every path and returns no result")
def pipe_malformed(sp, game, args, rule, prune):
    t = tad_pipe()
    g = build(game, args)
    # the well-formed game is solved first in the same process: whatever that run leaves behind must not let the
    # malformed near-copy through
    t.logging.reset(400)
    try:
        t.StochasticGame(prune_states=prune, **g.description(sp, nsym=0)).solve()
    except ValueError as e:
        if "no solution" not in str(e):
            raise
    desc = g.description(sp, nsym=0)
    n = g.n
    tl = desc["transition_list"]

    def state(pred=lambda s: True):
        cands = [s for s in range(n) if pred(s)]
        return cands[sp.choice("state", len(cands))]

    def trans(s):
        return sp.choice("trans", len(tl[s]))
    if rule == "tl_len":
        k = sp.choice("variant", 3)
        if k == 0:
            del tl[-1]
        elif k == 1:
            tl.append([(1, 0)])
        else:
            del tl[state()]
    elif rule == "rew_len":
        k = sp.choice("variant", 3)
        if k == 0:
            del desc["rewards"][-1]
        elif k == 1:
            desc["rewards"].append(0)
        else:
            desc["players"].append(PR)      # players longer than both other lists
    elif rule == "neg_reward":
        r = sp.real("bad_reward", None, 0, hi_open=True)
        desc["rewards"][state()] = r
    elif rule == "bad_player":
        menu = ["player 1", "Player1", "Player 3", "", None, "Probabilistic ", "PROBABILISTIC", 1]
        desc["players"][state()] = menu[sp.choice("menu", len(menu))]
    elif rule == "final_range":
        x = sp.int("bad_index")
        sp.assume(b_or(x < 0, x >= n))
        k = sp.choice("variant", 3)
        if k == 0:
            desc["final_states"] = [x]
        elif k == 1:
            desc["final_states"] = desc["final_states"] + [x]
        else:
            desc["final_states"] = [x] + desc["final_states"]
    elif rule == "succ_range":
        x = sp.int("bad_index")
        sp.assume(b_or(x < 0, x >= n))
        s = state()
        k = trans(s)
        tl[s][k] = (tl[s][k][0], x)
    elif rule == "no_transitions":
        s = state()
        tl[s] = [[], None, ()][sp.choice("variant", 3)]
    elif rule == "not_list":
        s = state()
        tl[s] = [tuple(tl[s]), {"a": 1}, "ab", 7][sp.choice("variant", 4)]
    elif rule == "not_tuple":
        s = state()
        k = trans(s)
        tl[s][k] = [list(tl[s][k]), None, "ab", 3][sp.choice("variant", 4)]
    elif rule == "tuple_len":
        s = state()
        k = trans(s)
        tl[s][k] = [(tl[s][k][0],), tl[s][k] + (0,), ()][sp.choice("variant", 3)]
    elif rule == "action_type":
        s = state(lambda s: g.players[s] != PR)
        k = trans(s)
        tl[s][k] = ([1, None, 0.5, b"a", ("a",)][sp.choice("variant", 5)], tl[s][k][1])
    elif rule == "prob_type":
        s = state(lambda s: g.players[s] == PR)
        k = trans(s)
        tl[s][k] = (["0.5", None, (0.5,), [1]][sp.choice("variant", 4)], tl[s][k][1])
    elif rule == "succ_type":
        s = state()
        k = trans(s)
        tl[s][k] = (tl[s][k][0], [1.0, "1", None, (1,), 0.5][sp.choice("variant", 5)])
    elif rule == "no_final":
        desc["final_states"] = []
    t.logging.reset(400)
    try:
        res = t.StochasticGame(prune_states=prune, **desc).solve()
    except ValueError:
        sp.cover("rejected")
        sp.prove(True, "rejected")
        return
    sp.prove(False, "a game breaking rule %r was solved instead of being rejected with ValueError" % rule)


@harness("pipe.corridor", props=["C13", "C06"], jobs=lambda tier, seed: [dict(n=n, prune=p, _timeout_s=2400) for n in ((2100,) if tier == "thorough" else (400,))
                                                                       for p in (True, False)], sentinel=True,
         bounds="CONCRETE: a corridor of 400 (thorough 2100) chance states numbered in walking order and in reverse order",
         desc="CONCRETE (not a solver verdict): a long corridor is solved, and gives the same probabilities and rewards up to "
              "renumbering, whether its states are numbered forwards (one sweep per tile) or backwards (a handful of sweeps)")
def pipe_corridor(sp, n, prune):
    res = {}
    for rev in (False, True):
        g = G.corridor(n, rev, reward=0)
        desc = dict(rewards=list(g.rewards), players=list(g.players), transition_list=[list(x) for x in g.tl], final_states=list(g.finals),
                    _budget=20 * n + 1000)
        res[rev] = solve(sp, desc, prune)
    sp.prove(res[False][0] == res[True][0] == "ok", "corridor: %s / %s" % (res[False][0], res[True][0]))
    pf, pr_ = res[False][1][3], res[True][1][3]
    fwd = [0] + list(range(1, n + 1))
    rev = [0] + list(range(n, 0, -1))
    for k in range(n + 1):
        sp.prove(abs(pf[fwd[k]] - pr_[rev[k]]) <= 1e-5, "tile %d: probability %r forwards, %r backwards" % (k, pf[fwd[k]], pr_[rev[k]]))
    sp.prove(pf[0] > 0.5, "initial probability %r" % pf[0])
