"""C07: reverse_dfs / reverse_transition_list on every graph within the bound (the search's
control flow is the graph, so the case split over graphs is exhaustive enumeration of holes),
plus concrete depth/width sentinels."""
import copy
import itertools
import sys
import time

from symex import repo
from symex.runner import harness
from .common import *


LABELS = ["a", 0.5, 0, "", 1, "0", 0.0, None]     # the search must not care what a transition is labelled with


def _graph(sp, n, maxdeg, first=None):
    tl = []
    for s in range(n):
        if s == 0 and first is not None:
            tl.append([(LABELS[(k + len(first)) % len(LABELS)], x) for k, x in enumerate(first)])
            continue
        deg = sp.choice("deg%d" % s, maxdeg + 1)
        tr = []
        for k in range(deg):
            x = sp.choice("t%d_%d" % (s, k), n)
            tr.append((LABELS[(3 * s + k + x) % len(LABELS)], x))
        tl.append(tr)
    return tl


def _firsts(n, maxdeg):
    out = [[]]
    for d in range(1, maxdeg + 1):
        import itertools
        out += [list(c) for c in itertools.product(range(n), repeat=d)]
    return out


def _jobs(tier, seed):
    jobs = []
    for n, maxdeg, maxfin in ([(1, 3, 3), (2, 3, 3), (3, 2, 3)] if tier == "quick" else [(1, 3, 3), (2, 3, 3), (3, 3, 3), (4, 2, 2)]):
        for first in _firsts(n, maxdeg):
            jobs.append(dict(n=n, maxdeg=maxdeg, maxfin=maxfin, first=first, _cost=(maxdeg * n) ** n, _timeout_s=3000))
    return jobs


def _oracle(n, tl, finals):
    reach = set(finals)
    changed = True
    while changed:
        changed = False
        for u in range(n):
            if u not in reach and any(v in reach for _, v in tl[u]):
                reach.add(u)
                changed = True
    return sorted(reach - set(finals))


@harness("rdfs.search", props=["C07"], jobs=_jobs,
         covers=["cycle", "self_loop", "parallel", "dup_final", "unreachable", "two_routes"],
         bounds="every graph with n<=3 states and out-degree <=2 (n<=2: <=3) [thorough: n=3 degree<=3, n=4 degree<=2], "
                "every final list of length 1..3 (n=4: 1..2) in any order with repetitions; labels a mix of actions and probabilities",
         desc="real reverse_dfs and reverse_transition_list against an independent fixed-point reachability: the result is "
              "the sorted duplicate-free list of non-final states with a path to a final state; the reversed table has "
              "every state as key and lists u under v once per transition u->v; inputs unchanged")
def rdfs_search(sp, n, maxdeg, maxfin, first):
    m = repo.std().reverse_dfs
    tl = _graph(sp, n, maxdeg, first)
    nf = 1 + sp.choice("nfin", maxfin)
    finals = [sp.choice("f%d" % k, n) for k in range(nf)]
    tl0, fin0 = copy.deepcopy(tl), list(finals)
    got = m.reverse_dfs(tl, finals)
    exp = _oracle(n, tl, finals)
    edges = [(u, v) for u in range(n) for _, v in tl[u]]
    if any(u == v for u, v in edges):
        sp.cover("self_loop")
    if len(set(edges)) < len(edges):
        sp.cover("parallel")
    if len(set(finals)) < len(finals):
        sp.cover("dup_final")
    if len(exp) + len(set(finals)) < n:
        sp.cover("unreachable")
    if any(sum(1 for (a, b) in edges if a == u and (b in exp or b in finals)) >= 2 for u in exp):
        sp.cover("two_routes")
    if any((v, u) in edges and u != v for u, v in edges):
        sp.cover("cycle")
    sp.note("graph", [[v for _, v in tr] for tr in tl])
    sp.note("finals", finals)
    sp.prove(got == exp, "reverse_dfs(%s, finals=%s) = %s, expected %s" % ([[v for _, v in tr] for tr in tl], finals, got, exp))
    sp.prove(tl == tl0 and finals == fin0, "reverse_dfs modified its inputs")
    rt = m.reverse_transition_list(tl)
    sp.prove(sorted(rt.keys()) == list(range(n)), "reversed table keys %s" % sorted(rt.keys()))
    for v in range(n):
        sp.prove(sorted(rt[v]) == sorted(u for (u, x) in edges if x == v),
                 "reversed table entry %d is %s" % (v, rt[v]))


def _sym_jobs(tier, seed):
    jobs = []
    for n, maxdeg in ([(1, 2), (2, 2)] if tier == "quick" else [(1, 3), (2, 3), (3, 2)]):
        for degs in itertools.product(range(maxdeg + 1), repeat=n):
            for nf in (1, 2):
                jobs.append(dict(n=n, degs=list(degs), nf=nf, _cost=(n ** sum(degs)) * n ** nf, _timeout_s=3000))
    return jobs


@harness("rdfs.symbolic", props=["C07"], jobs=_sym_jobs, covers=["cycle", "self_loop", "parallel", "dup_final"],
         bounds="n<=2 states with out-degree <=2 (thorough: n<=2 degree <=3, n=3 degree <=2), 1-2 final states: every successor index and "
                "every final state is a SOLVER VARIABLE constrained to 0..n-1",
         desc="real reverse_dfs / reverse_transition_list with symbolic successor and final indices: the code's own dictionary lookups "
              "force the case split, the solver proposes every feasible value; result = sorted duplicate-free non-final states with a "
              "path to a final state; reversed table complete")
def rdfs_symbolic(sp, n, degs, nf):
    m = repo.std().reverse_dfs
    tl = [[(LABELS[(3 * s + k) % len(LABELS)], sp.int("t%d_%d" % (s, k), 0, n - 1)) for k in range(degs[s])] for s in range(n)]
    finals = [sp.int("f%d" % k, 0, n - 1) for k in range(nf)]
    got = m.reverse_dfs(tl, finals)
    ctl = [[(lab, int(x)) for lab, x in tr] for tr in tl]          # decided by the path condition by now
    cfin = [int(f) for f in finals]
    exp = _oracle(n, ctl, cfin)
    edges = [(u, v) for u in range(n) for _, v in ctl[u]]
    if any(u == v for u, v in edges):
        sp.cover("self_loop")
    if len(set(edges)) < len(edges):
        sp.cover("parallel")
    if len(set(cfin)) < len(cfin):
        sp.cover("dup_final")
    if any((v, u) in edges and u != v for u, v in edges):
        sp.cover("cycle")
    sp.note("graph", [[v for _, v in tr] for tr in ctl])
    sp.note("finals", cfin)
    sp.prove([int(x) for x in got] == exp, "reverse_dfs(%s, finals=%s) = %s, expected %s" % ([[v for _, v in tr] for tr in ctl], cfin, got, exp))
    rt = m.reverse_transition_list(tl)
    sp.prove(sorted(int(k) for k in rt.keys()) == list(range(n)), "reversed table keys")
    for v in range(n):
        sp.prove(sorted(int(u) for u in rt[v]) == sorted(u for (u, x) in edges if x == v), "reversed table entry %d" % v)


def _sentinel_jobs(tier, seed):
    jobs = [dict(shape="chain", size=5000), dict(shape="star", size=2000), dict(shape="tall_board", size=400),
            dict(shape="dense_back", size=300)]
    for k in (3, 5, 6, 8, 12):
        jobs.append(dict(shape="clique_tail", size=k))          # densely connected cluster + a low-numbered predecessor of the final state
    for n in (40, 300, 3000):
        jobs.append(dict(shape="sparse_high", size=n))         # few reaching states, some of them high-numbered
    for r in range(8 if tier == "quick" else 40):
        jobs.append(dict(shape="random", size=6 + (r % 9), rseed=seed * 1000 + r))
    return jobs


@harness("rdfs.sentinel", props=["C07"], jobs=_sentinel_jobs, sentinel=True,
         bounds="concrete executions: 5000-state chain, 2000-leaf star, game C of a 3x400 board, 300-state graph with all back edges, "
                "cliques of 3..12 states with a tail, sparse graphs (40..3000 states) whose few reaching states are high-numbered, "
                "8 (thorough 40) seeded random graphs of 6..14 states",
         desc="SENTINEL (concrete run, not a solver verdict): large/deep graphs return the right set without RecursionError "
              "under the interpreter's default recursion limit")
def rdfs_sentinel(sp, shape, size, rseed=0):
    m = repo.std().reverse_dfs
    if shape == "clique_tail":
        k = size
        # states 0: start; 1: direct predecessor of the final state; 2..k+1: a clique that also reaches the final state; last: final
        n = k + 3
        fin = n - 1
        tl = [[("a", 1)], [("a", fin)]]
        for i in range(2, k + 2):
            tl.append([("c%d" % j, j) for j in range(2, k + 2) if j != i] + [("f", fin)] + ([("p", 1)] if i == 2 else []))
        tl.append([(1, fin)])
        tl[0].append(("b", 2))
        finals = [fin]
        return _rdfs_compare(sp, m, n, tl, finals, shape, size)
    if shape == "sparse_high":
        n = size
        reach = sorted({1, n // 5, n - n // 6, n - 7, n - 2})
        fin = n - 1
        tl = [[(1, i)] for i in range(n)]                       # everybody loops on itself ...
        for r in reach:
            tl[r] = [("go", fin)]                               # ... except a few states that step to the final state
        tl[fin] = [(1, fin)]
        return _rdfs_compare(sp, m, n, tl, [fin], shape, size)
    if shape == "random":
        import random
        rnd = random.Random(rseed)
        n = size
        dense = rnd.random() < 0.5
        tl = []
        for u in range(n):
            deg = rnd.randint(0, n if dense else 2)
            tl.append([("a%d" % k, rnd.randrange(n)) for k in range(deg)])
        finals = [rnd.randrange(n) for _ in range(rnd.randint(1, 3))]
        return _rdfs_compare(sp, m, n, tl, finals, shape, size)
    if shape == "chain":
        n = size
        tl = [[("a", i + 1)] for i in range(n - 1)] + [[("a", n - 1)]]
        finals = [n - 1]
    elif shape == "star":
        n = size + 2
        tl = [[("a%d" % i, i + 1) for i in range(size)]] + [[(1, n - 1)] for _ in range(size)] + [[(1, n - 1)]]
        finals = [n - 1]
    elif shape == "dense_back":
        n = size
        tl = [[("a%d" % j, j) for j in range(i + 2) if j < n] for i in range(n)]
        finals = [n - 1]
    else:
        gen = repo.std().gen
        import io
        length, width = size, 3
        moves = [[1] * width for _ in range(length)]
        rewards = [[1] * width for _ in range(length)]
        loose = [[0] * width for _ in range(length)]
        buf = io.StringIO()
        gen.write_robot_C(buf, length, width, moves, rewards, loose, 0.1, 0.1, 0.1)
        g = eval("{" + buf.getvalue().rstrip().rstrip("}") + "}")["game_c"]
        tl, finals = g["transition_list"], g["final_states"]
        n = len(tl)
    _rdfs_compare(sp, m, n, tl, finals, shape, size)


def _rdfs_compare(sp, m, n, tl, finals, shape, size):
    old = sys.getrecursionlimit()
    sys.setrecursionlimit(1000)
    t0 = time.time()
    try:
        got = m.reverse_dfs(tl, finals)
    finally:
        sys.setrecursionlimit(old)
    exp = _oracle(n, tl, finals)
    sp.prove(got == exp, "reverse_dfs wrong on %s(%d): got %s expected %s" % (shape, size, str(got)[:120], str(exp)[:120]))
    sp.prove(time.time() - t0 < 60, "reverse_dfs took %.0fs on %s(%d)" % (time.time() - t0, shape, size))
    rt = m.reverse_transition_list(tl)
    sp.prove(sorted(rt.keys()) == list(range(n)), "reversed table keys")
    cnt = {}
    for u in range(n):
        for _, v in tl[u]:
            cnt[(u, v)] = cnt.get((u, v), 0) + 1
    sp.prove(all(rt[v].count(u) == c for (u, v), c in cnt.items()) and sum(len(x) for x in rt.values()) == sum(cnt.values()),
             "reversed table does not list u under v once per transition")
