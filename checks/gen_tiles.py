"""C08/C11 G1, G3: per-tile lemmas on the nine transition builders of roberta_generator.py
with a havoc `range` (one arbitrary tile of a board of unbounded symbolic size)."""
import ast

import z3

from symex import repo, core
from symex.core import SymInt, SymBool, to_int, Space
from symex.runner import harness
from .common import *

BUILDERS = ["player_two_transitions", "player_one_down_transitions", "player_one_left_right_transitions",
            "prob_tile_break_transitions", "prob_robot_down_break_transitions", "prob_robot_left_break_transitions",
            "prob_robot_right_break_transitions", "player_one_down_left_right_transitions", "prob_light_break_transitions"]


class HavocRange:
    """range(n) replacement: yields ONE arbitrary index lo <= i < hi (universal generalisation over
    independent loop iterations)."""

    def __init__(self, *args):
        if len(args) == 1:
            self.lo, self.hi = 0, args[0]
        else:
            self.lo, self.hi = args[0], args[1]

    def __iter__(self):
        sp = Space.cur
        i = sp.int("it%d" % len(sp.havoc))
        sp.havoc.append(i)
        sp.assume(b_and(i >= self.lo, i < self.hi))
        yield i


class SymGrid:
    """board[i][j] with symbolic indices: one fresh cell variable per distinct index pair,
    functionally consistent"""

    def __init__(self, name, lo, hi):
        self.name, self.lo, self.hi = name, lo, hi
        self.cells = []

    def __getitem__(self, i):
        return _GridRow(self, i)

    def cell(self, i, j):
        sp = Space.cur
        if sp.mode == "native":
            for (i0, j0, c) in self.cells:
                if i0 == i and j0 == j:
                    return c
            c = sp.int("%s!%d" % (self.name, len(self.cells)), self.lo, self.hi)
            self.cells.append((i, j, c))
            return c
        ti, tj = z3.simplify(to_int(i)), z3.simplify(to_int(j))
        for (i0, j0, c) in self.cells:
            if z3.eq(i0, ti) and z3.eq(j0, tj):
                return c
        c = sp.int("%s!%d" % (self.name, len(self.cells)), self.lo, self.hi)
        for (i0, j0, c0) in self.cells:
            sp.add(z3.Implies(z3.And(i0 == ti, j0 == tj), c0.t == c.t))
        self.cells.append((ti, tj, c))
        return c


class _GridRow:
    def __init__(self, g, i):
        self.g, self.i = g, i

    def __getitem__(self, j):
        return self.g.cell(self.i, j)


def check_independent(src, fname):
    """structural premise of the havoc instantiation: inside the tile loops the accumulator is only
    appended to, and the function is `acc = []; for i in range(length): for j in range(width): ...; return acc`"""
    tree = ast.parse(src)
    fn = [n for n in tree.body if isinstance(n, ast.FunctionDef) and n.name == fname]
    if not fn:
        return "function %s not found" % fname
    fn = fn[0]
    body = [s for s in fn.body if not (isinstance(s, ast.Expr) and isinstance(s.value, ast.Constant))]
    if len(body) != 3 or not isinstance(body[0], ast.Assign) or not isinstance(body[1], ast.For) or not isinstance(body[2], ast.Return):
        return "unexpected shape"
    acc = body[0].targets[0].id
    outer = body[1]
    if not (isinstance(outer.iter, ast.Call) and getattr(outer.iter.func, "id", "") == "range" and
            len(outer.body) == 1 and isinstance(outer.body[0], ast.For)):
        return "outer loop shape"
    inner = outer.body[0]
    if not (isinstance(inner.iter, ast.Call) and getattr(inner.iter.func, "id", "") == "range"):
        return "inner loop shape"
    loopvars = {outer.target.id, inner.target.id}
    for node in ast.walk(inner):
        if isinstance(node, ast.Name) and node.id == acc:
            pass
    # every use of the accumulator inside the loop must be `acc.append(...)`
    uses = [n for n in ast.walk(inner) if isinstance(n, ast.Name) and n.id == acc]
    appends = [n for n in ast.walk(inner) if isinstance(n, ast.Call) and isinstance(n.func, ast.Attribute)
               and n.func.attr == "append" and isinstance(n.func.value, ast.Name) and n.func.value.id == acc]
    if len(uses) != len(appends):
        return "accumulator read inside the loop"
    for node in ast.walk(inner):
        if isinstance(node, (ast.Assign, ast.AugAssign)):
            tg = node.targets if isinstance(node, ast.Assign) else [node.target]
            for t in tg:
                for n in ast.walk(t):
                    if isinstance(n, ast.Name) and n.id in loopvars:
                        return "loop variable assigned in the body"
    return None


def _jobs(tier, seed):
    jobs = []
    for b in BUILDERS:
        if b == "player_one_left_right_transitions":
            jobs += [dict(builder=b, mode="shared"), dict(builder=b, mode="split")]
        elif b == "player_one_down_transitions":
            jobs += [dict(builder=b, mode="direct"), dict(builder=b, mode="to_next_row")]
        else:
            jobs.append(dict(builder=b, mode=""))
    return jobs


@harness("gen.tile", props=["C08", "C11"], jobs=_jobs,
         covers=["arrow0", "arrow1", "arrow2", "arrow3", "loose", "firm", "last_row", "inner_row"],
         stubs=["range -> havoc iterator yielding one arbitrary index (independence of iterations checked on the AST)"],
         bounds="boards of ANY length, width >= 1 (symbolic integers), any tile, any arrow 0..3 / loose flag 0..1, any group "
                "offsets >= 0, any break probability in (0,1)",
         assumes=["iterations of the tile loops are independent (structural check on the source at run time)"],
         desc="each of the nine transition builders, run once for an arbitrary tile of an arbitrary board, emits exactly the "
              "reference transitions of the Roborta rules for that tile (labels, targets as integer terms incl. wrap-around "
              "and last-row-wins, probabilities p / 1-p, positive and summing to 1)")
def gen_tile(sp, builder, mode):
    src = repo.source("roberta_generator")
    why = check_independent(src, builder)
    if why:
        # the builder is no longer "one independent iteration per tile": fall back to its complete output on every board
        # shape up to 4x4 with one distinguished tile (any position, any arrow / loose value), symbolic probability
        for tag in ("fallback_bounded", "arrow0", "arrow1", "arrow2", "arrow3", "loose", "firm", "last_row", "inner_row"):
            sp.cover(tag)
        return _tile_fallback(sp, builder, mode)
    gen = repo.load("roberta_generator", overrides={"range": HavocRange}, alias="roberta_generator_havoc")
    L, W = sp.int("length", 1, None), sp.int("width", 1, None)
    moves = SymGrid("moves", 0, 3)
    loose = SymGrid("loose", 0, 1)
    p = sp.real("p", 0, 1, lo_open=True, hi_open=True)
    offs = [sp.int("off%d" % k, 0, None) for k in range(3)]
    win = sp.int("win", 1, None)
    lose = sp.int("lose", 0, None)
    f = getattr(gen, builder)
    if builder == "player_two_transitions":
        out = f(L, W, moves, offs[0], offs[1])
    elif builder == "player_one_down_transitions":
        out = f(L, W, offs[0]) if mode == "direct" else f(L, W, offs[0], winning_state=win)
    elif builder == "player_one_left_right_transitions":
        if mode == "split":
            sp.assume(offs[0] != offs[1])
            out = f(L, W, moves, offs[0], offs[1])
        else:
            out = f(L, W, moves, offs[0], offs[0])
    elif builder == "prob_tile_break_transitions":
        out = f(L, W, p, loose, offs[0], lose)
    elif builder == "prob_robot_down_break_transitions":
        out = f(L, W, p, offs[0], win)
    elif builder in ("prob_robot_left_break_transitions", "prob_robot_right_break_transitions"):
        out = f(L, W, p, offs[0])
    elif builder == "player_one_down_left_right_transitions":
        out = f(L, W, moves, offs[0], offs[1], offs[2])
    else:
        out = f(L, W, p, offs[0], offs[1])
    sp.prove(len(out) == 1 and len(sp.havoc) == 2, "one transition list per tile (got %d, %d loop levels)" % (len(out), len(sp.havoc)))
    got = out[0]
    i, j = sp.havoc
    t = i * W + j
    left = i * W + (j - 1) % W
    right = i * W + (j + 1) % W
    last = bool(i == L - 1)
    sp.cover("last_row" if last else "inner_row")

    def arrow():
        m = moves[i][j]
        k = 0 if bool(m == 0) else 1 if bool(m == 1) else 2 if bool(m == 2) else 3
        sp.cover("arrow%d" % k)
        return k
    if builder == "player_two_transitions":
        k = arrow()
        exp = [("Green", offs[0] + t)] + ([("Yellow", offs[1] + t)] if k != 3 else [])
    elif builder == "player_one_down_transitions":
        if mode == "direct":
            exp = [("Down", offs[0] + t)]
        else:
            exp = [("Down", win if last else offs[0] + t + W)]
    elif builder == "player_one_left_right_transitions":
        k = arrow()
        if mode == "split":
            lt, rt = ("Left", offs[0] + t), ("Right", offs[1] + t)
        else:
            lt, rt = ("Left", offs[0] + left), ("Right", offs[0] + right)
        if k == 3:
            return          # filler state: a down-only tile never offers Yellow (player_two_transitions lemma)
        exp = {0: [lt], 1: [lt, rt], 2: [rt]}[k]
    elif builder == "prob_tile_break_transitions":
        if bool(loose[i][j] == 1):
            sp.cover("loose")
            exp = [(p, lose), (1 - p, offs[0] + t)]
        else:
            sp.cover("firm")
            exp = [(1, offs[0] + t)]
    elif builder == "prob_robot_down_break_transitions":
        exp = [(p, offs[0] + t), (1 - p, win if last else offs[0] + t + W)]
    elif builder == "prob_robot_left_break_transitions":
        exp = [(p, offs[0] + t), (1 - p, offs[0] + left)]
    elif builder == "prob_robot_right_break_transitions":
        exp = [(p, offs[0] + t), (1 - p, offs[0] + right)]
    elif builder == "player_one_down_left_right_transitions":
        k = arrow()
        d, lt, rt = ("Down", offs[0] + t), ("Left", offs[1] + t), ("Right", offs[2] + t)
        exp = {0: [d, lt], 1: [d, lt, rt], 2: [d, rt], 3: [d]}[k]
    else:
        exp = [(p, offs[1] + t), (1 - p, offs[0] + t)]
    sp.prove(isinstance(got, list) and len(got) == len(exp), "%s: %d transitions, expected %d" % (builder, len(got), len(exp)))
    for g, e in zip(got, exp):
        sp.prove(isinstance(g, tuple) and len(g) == 2, "transition is not a pair")
        if isinstance(e[0], str):
            sp.prove(g[0] == e[0], "%s: label %r, expected %r" % (builder, g[0], e[0]))
        else:
            sp.prove(sp.eq(g[0], e[0]), "%s: wrong probability" % builder)
            sp.prove(g[0] > 0, "%s: non-positive probability" % builder)
        sp.prove(g[1] == e[1], "%s: %s leads to the wrong state" % (builder, e[0] if isinstance(e[0], str) else "a chance transition"))
    if not isinstance(exp[0][0], str):
        sp.prove(sp.eq(vsum([g[0] for g in got]), 1), "%s: probabilities do not sum to 1" % builder)


def _reference_tile(builder, mode, L, W, i, j, a, lo, p, offs, win, lose):
    t = i * W + j
    left, right = i * W + (j - 1) % W, i * W + (j + 1) % W
    last = i == L - 1
    if builder == "player_two_transitions":
        return [("Green", offs[0] + t)] + ([("Yellow", offs[1] + t)] if a != 3 else [])
    if builder == "player_one_down_transitions":
        return [("Down", offs[0] + t)] if mode == "direct" else [("Down", win if last else offs[0] + t + W)]
    if builder == "player_one_left_right_transitions":
        lt, rt = (("Left", offs[0] + t), ("Right", offs[1] + t)) if mode == "split" else (("Left", offs[0] + left), ("Right", offs[0] + right))
        return {0: [lt], 1: [lt, rt], 2: [rt], 3: None}[a]
    if builder == "prob_tile_break_transitions":
        return [(p, lose), (1 - p, offs[0] + t)] if lo == 1 else [(1, offs[0] + t)]
    if builder == "prob_robot_down_break_transitions":
        return [(p, offs[0] + t), (1 - p, win if last else offs[0] + t + W)]
    if builder == "prob_robot_left_break_transitions":
        return [(p, offs[0] + t), (1 - p, offs[0] + left)]
    if builder == "prob_robot_right_break_transitions":
        return [(p, offs[0] + t), (1 - p, offs[0] + right)]
    if builder == "player_one_down_left_right_transitions":
        d, lt, rt = ("Down", offs[0] + t), ("Left", offs[1] + t), ("Right", offs[2] + t)
        return {0: [d, lt], 1: [d, lt, rt], 2: [d, rt], 3: [d]}[a]
    return [(p, offs[1] + t), (1 - p, offs[0] + t)]


def _tile_fallback(sp, builder, mode):
    gen = repo.load("roberta_generator", alias="roberta_generator_plain")
    L = 1 + sp.choice("L", 4)
    W = 1 + sp.choice("W", 4)
    si, sj = sp.choice("si", L), sp.choice("sj", W)
    sa, sl = sp.choice("sa", 4), sp.choice("sl", 2)
    base_a = sp.choice("base_a", 4)
    moves = [[base_a] * W for _ in range(L)]
    loose = [[0] * W for _ in range(L)]
    moves[si][sj], loose[si][sj] = sa, sl
    p = sp.real("p", 0, 1, lo_open=True, hi_open=True)
    n_t = L * W
    offs = [1000, 2000, 3000] if mode != "shared" else [1000, 1000, 3000]
    win, lose = 9001, 9000
    f = getattr(gen, builder)
    if builder == "player_two_transitions":
        out = f(L, W, moves, offs[0], offs[1])
    elif builder == "player_one_down_transitions":
        out = f(L, W, offs[0]) if mode == "direct" else f(L, W, offs[0], winning_state=win)
    elif builder == "player_one_left_right_transitions":
        out = f(L, W, moves, offs[0], offs[1])
    elif builder == "prob_tile_break_transitions":
        out = f(L, W, p, loose, offs[0], lose)
    elif builder == "prob_robot_down_break_transitions":
        out = f(L, W, p, offs[0], win)
    elif builder in ("prob_robot_left_break_transitions", "prob_robot_right_break_transitions"):
        out = f(L, W, p, offs[0])
    elif builder == "player_one_down_left_right_transitions":
        out = f(L, W, moves, offs[0], offs[1], offs[2])
    else:
        out = f(L, W, p, offs[0], offs[1])
    sp.prove(isinstance(out, list) and len(out) == n_t, "%s: %d transition lists for %d tiles" % (builder, len(out), n_t))
    for i in range(L):
        for j in range(W):
            exp = _reference_tile(builder, mode, L, W, i, j, moves[i][j], loose[i][j], p, offs, win, lose)
            if exp is None:
                continue
            got = out[i * W + j]
            sp.prove(isinstance(got, list) and len(got) == len(exp), "%s: tile (%d,%d) of a %dx%d board has %d transitions, expected %d" % (builder, i, j, L, W, len(got), len(exp)))
            for g, e in zip(got, exp):
                if isinstance(e[0], str):
                    sp.prove(g[0] == e[0], "%s: label %r, expected %r" % (builder, g[0], e[0]))
                else:
                    sp.prove(sp.eq(g[0], e[0]), "%s: wrong probability at tile (%d,%d) of a %dx%d board" % (builder, i, j, L, W))
                sp.prove(g[1] == e[1], "%s: tile (%d,%d) of a %dx%d board leads to %r, expected %r" % (builder, i, j, L, W, g[1], e[1]))
