"""Pipeline templates (DESIGN 3.4) and oracles that share no code with tad.py (DESIGN 3.5)."""
import itertools
from fractions import Fraction

import z3

from symex.core import to_real, zabs, rat
from .common import P1, P2, PR, is_sym

SYM = "sym"     # placeholder for a symbolic reward


class Game:
    """a template instance: concrete topology/probabilities, reward slots"""

    def __init__(self, name, players, tl, finals, rewards, stopping=True, note=""):
        self.name = name
        self.players = list(players)
        self.tl = [list(x) for x in tl]
        self.finals = list(finals)
        self.rewards = list(rewards)      # numbers or SYM
        self.n = len(players)
        self.stopping = stopping          # every play absorbed w.p.1, finals absorbing -> reward oracles apply
        self.note = note

    def acyclic(self):
        """no cycle other than the self-loops of absorbing states"""
        color = {}

        def dfs(u):
            color[u] = 1
            for _, v in self.tl[u]:
                if v == u and all(t == u for _, t in self.tl[u]):
                    continue
                if color.get(v) == 1:
                    return False
                if v not in color and not dfs(v):
                    return False
            color[u] = 2
            return True
        return all(dfs(s) for s in range(self.n) if s not in color)

    def description(self, sp, prefix="r", nsym=99, fill=1):
        """fresh description dict; the first nsym SYM slots become solver variables in {0} u [1/8, 4],
        the remaining ones the constant `fill`"""
        rew = []
        k = 0
        for i, r in enumerate(self.rewards):
            if r == SYM and k >= nsym:
                rew.append(fill)
            elif r == SYM:
                k += 1
                x = sp.real("%s%d" % (prefix, i), 0, 4)
                if sp.mode != "native":
                    sp.add(z3.Or(x.t == 0, x.t >= rat(Fraction(1, 8))))
                rew.append(x)
            else:
                rew.append(r)
        return dict(rewards=rew, players=list(self.players), transition_list=[list(t) for t in self.tl],
                    final_states=list(self.finals))


# ----------------------------------------------------------------------------- families
def fig55(p=0.5, q=0.75, sym=(3, 4)):
    rew = [0, 0, 0, 1, 2, 0, 0, 0]
    for i in sym:
        rew[i] = SYM
    return Game("acyc55(p=%s,q=%s)" % (p, q), [P1, P2, P2, PR, PR, PR, PR, PR],
                [[("alfa", 1), ("beta", 2)], [("x", 3), ("y", 5)], [("x", 4), ("y", 6)],
                 [(p, 6), (1 - p, 7)], [(q, 6), (1 - q, 7)], [(1, 5)], [(1, 6)], [(1, 7)]], [6], rew)


def dead_family(kind, succ_kinds, self_loop=False):
    """state 0 (P1 or chance) with successors drawn from: 'D' dead sink, 'C' dead Player-2 chain,
    'A' alive chance (1/2), 'B' alive chance (3/4), 'F' final, 'E' Player 2 state that can move to the dead sink or
    to the final state (value 0 although it has a path to the final state)."""
    idx = {"D": 1, "C": 2, "A": 3, "B": 4, "F": 5, "E": 6, "T": 7, "U": 8}     # 'T' / 'U': alive with a tiny value (1e-7 / 1e-13)
    K = len(succ_kinds)
    if kind == P1:
        t0 = [("a%d" % i, idx[k]) for i, k in enumerate(succ_kinds)]
        if self_loop:
            t0.append(("loop", 0))
    else:
        m = K + (1 if self_loop else 0)
        ps = {1: [1], 2: [0.5, 0.5], 3: [0.5, 0.25, 0.25], 4: [0.25, 0.25, 0.25, 0.25], 5: [0.25, 0.25, 0.25, 0.125, 0.125]}[m]
        t0 = [(ps[i], idx[k]) for i, k in enumerate(succ_kinds)]
        if self_loop:
            t0.append((ps[K], 0))
    tl = [t0, [(1, 1)], [("x", 1)], [(0.5, 5), (0.5, 1)], [(0.75, 5), (0.25, 1)], [(1, 5)], [("x", 1), ("y", 5)],
          [(1e-7, 5), (1 - 1e-7, 1)], [(1e-13, 5), (1 - 1e-13, 1)]]
    return Game("dead(%s,%s%s)" % (kind[0:2] + kind[-1], "".join(succ_kinds), ",loop" if self_loop else ""),
                [kind, PR, P2, PR, PR, PR, P2, PR, PR], tl, [5], [SYM, 0, 0, SYM, SYM, 0, 0, 1, 1])


def cyc(back, owner=P1):
    rest = (1 - back) / 2
    return Game("cyc(%s,%s)" % (back, owner[-1]), [owner, PR, P2, PR, PR],
                [[("a", 1), ("b", 2)], [(back, 0), (rest, 3), (rest, 4)], [("x", 1), ("y", 3)], [(1, 3)], [(1, 4)]],
                [3], [SYM, SYM, SYM, 0, 0])


def cyc2():
    """two chance returns (1/64 and 1/4): dearer queries, two symbolic rewards"""
    return Game("cyc2", [P1, PR, P2, PR, PR, PR],
                [[("a", 1), ("b", 2)], [(1 / 64, 0), (0.5, 4), (0.484375, 5)], [("x", 1), ("y", 3)],
                 [(0.5, 4), (0.25, 0), (0.25, 5)], [(1, 4)], [(1, 5)]], [4], [SYM, SYM, 0, 1, 0, 0])


def ec(which):
    D, F = 5, 4
    if which == "p1p1":     # P1 <-> P1 cycle, exits of value 1/2 and 3/4
        pl = [P1, P1, PR, PR, PR, PR]
        tl = [[("a", 1), ("b", 2)], [("c", 0), ("d", 3)], [(0.5, F), (0.5, D)], [(0.75, F), (0.25, D)], [(1, F)], [(1, D)]]
    elif which == "p2p2":   # P2 <-> P2 cycle: staying forever is worth 0
        pl = [P2, P2, PR, PR, PR, PR]
        tl = [[("a", 1), ("b", 2)], [("c", 0), ("d", 3)], [(0.5, F), (0.5, D)], [(0.75, F), (0.25, D)], [(1, F)], [(1, D)]]
    elif which == "p1p2":
        pl = [P1, P2, PR, PR, PR, PR]
        tl = [[("a", 1), ("b", 2)], [("c", 0), ("d", 3)], [(0.5, F), (0.5, D)], [(0.75, F), (0.25, D)], [(1, F)], [(1, D)]]
    else:                   # P1 below a P2 cycle entry
        pl = [P1, P2, P2, PR, PR, PR]
        tl = [[("a", 1), ("b", 3)], [("c", 2), ("d", 3)], [("e", 1), ("f", 4)], [(0.25, F), (0.75, D)], [(1, F)], [(1, D)]]
    return Game("ec(%s)" % which, pl, tl, [4], [0, 0, SYM, SYM, 0, 0] if which != "p2deep" else [0, 0, 0, SYM, 0, 0],
                stopping=False)


def finals(which):
    # two finals; state 3 is final but not absorbing
    tl = [[("a", 1), ("b", 2)], [(0.5, 3), (0.5, 5)], [(0.25, 4), (0.75, 5)], [(0.5, 0), (0.5, 5)], [(1, 4)], [(1, 5)]]
    fin = {"34": [3, 4], "43": [4, 3], "343": [3, 4, 3], "4": [4], "3": [3]}[which]
    return Game("finals(%s)" % which, [P1, PR, PR, PR, PR, PR], tl, fin, [0, SYM, SYM, 0, 0, 0], stopping=False)


def p2choice(order=(0, 1, 2), top=P1):
    acts = [("x", 2), ("y", 3), ("z", 4)]
    acts = [acts[i] for i in order]
    return Game("p2choice(%s,%s)" % ("".join(map(str, order)), top[-1]), [top, P2, PR, PR, PR, PR, PR],
                [[("a", 1), ("b", 4)], acts, [(0.5, 5), (0.5, 6)], [(0.5, 5), (0.5, 6)], [(0.75, 5), (0.25, 6)],
                 [(1, 5)], [(1, 6)]], [5], [0, SYM, SYM, SYM, 1, 0, 0])


def lex():
    return Game("lex", [P1, PR, PR, PR, PR],
                [[("a", 1), ("b", 2)], [(0.5, 3), (0.25, 0), (0.25, 4)], [(0.25, 3), (0.25, 0), (0.5, 4)], [(1, 3)], [(1, 4)]],
                [3], [SYM, SYM, SYM, 0, 0])


def ties(which):
    if which == "quarter":
        tl = [[("a", 1), ("b", 2), ("c", 3)], [(0.25, 4), (0.25, 4), (0.5, 5)], [(0.5, 4), (0.5, 5)], [(0.25, 4), (0.75, 5)],
              [(1, 4)], [(1, 5)]]
    else:   # 0.1 + 0.2 vs 0.3
        tl = [[("a", 1), ("b", 2), ("c", 3)], [(0.1, 4), (0.2, 4), (0.7, 5)], [(0.3, 4), (0.7, 5)], [(0.2, 4), (0.8, 5)],
              [(1, 4)], [(1, 5)]]
    return Game("ties(%s)" % which, [P1, PR, PR, PR, PR, PR], tl, [4], [0, SYM, SYM, SYM, 0, 0])


def ties_p2(which="tenths"):
    tl = [[("a", 1), ("b", 2), ("c", 3)], [(0.1, 4), (0.2, 4), (0.7, 5)], [(0.3, 4), (0.7, 5)], [(0.5, 4), (0.5, 5)],
          [(1, 4)], [(1, 5)]]
    return Game("ties_p2", [P2, PR, PR, PR, PR, PR], tl, [4], [0, SYM, SYM, SYM, 0, 0])


def nosol(which):
    if which == "forced":     # Player 2 can move to the dead sink
        return Game("nosol(forced)", [P2, PR, PR, PR], [[("x", 1), ("y", 2)], [(0.5, 3), (0.5, 2)], [(1, 2)], [(1, 3)]], [3],
                    [SYM, SYM, 0, 0])
    if which == "nopath":
        return Game("nosol(nopath)", [P1, PR, PR, PR], [[("a", 1), ("b", 1)], [(1, 1)], [(0.5, 3), (0.5, 1)], [(1, 3)]], [3],
                    [SYM, 0, SYM, 0])
    if which == "walled":     # no non-final state has a transition into the final state
        return Game("nosol(walled)", [P1, PR, PR], [[("a", 1), ("b", 1)], [(1, 1)], [(1, 2)]], [2], [SYM, 0, 0])
    # initial chance state whose every branch is dead
    return Game("nosol(chance)", [PR, PR, P1, PR], [[(0.5, 1), (0.5, 1)], [(1, 1)], [("a", 3)], [(1, 3)]], [3], [SYM, 0, SYM, 0])


def unreach(which):
    # fig-5.5-like core plus states nobody points to, of each kind
    core = [[("a", 1), ("b", 2)], [(0.5, 3), (0.5, 4)], [(0.25, 3), (0.75, 4)], [(1, 3)], [(1, 4)]]
    extra = {"p1": (P1, [("u", 1), ("v", 4)]), "p2": (P2, [("u", 1), ("v", 4)]), "pr": (PR, [(0.5, 1), (0.5, 4)])}[which]
    return Game("unreach(%s)" % which, [P1, PR, PR, PR, PR, extra[0]], core + [extra[1]], [3], [0, SYM, SYM, 0, 0, SYM])


def rew_ties(owner, r=1):
    """an exact reward tie reached through different floating-point sums: 0.7r + 0.2r + 0.1r versus r"""
    return Game("rew_ties(%s,%s)" % (owner[-1], r), [owner, PR, PR, PR, PR],
                [[("direct", 2), ("split", 1), ("low", 3)], [(0.7, 2), (0.2, 2), (0.1, 2)], [(1, 4)], [(1, 4)], [(1, 4)]], [4],
                [0, 0, r, r / 2 if owner == P1 else 2 * r, 0])


def slow_rew(p=0.9997):
    """a stopping game that is absorbed slowly: rewarded self-loop of probability p (value 1/(1-p))"""
    return Game("slow_rew(%s)" % p, [P1, PR, PR, PR], [[("a", 1), ("b", 2)], [(p, 1), (1 - p, 3)], [(0.5, 3), (0.5, 2)], [(1, 3)]], [3],
                [0, 1, 1, 0])


def regroup(which):
    """two games with the same state count, final states and left-to-right successor sequence (1,2,3,2,3) but the
    transitions grouped differently among the states"""
    if which == "x":
        return Game("regroup(x)", [P1, PR, PR, PR], [[("a", 1), ("b", 2)], [(1, 3)], [(1, 2)], [(1, 3)]], [3], [0, 2, 0, 0])
    return Game("regroup(z)", [PR, PR, PR, PR], [[(1, 1)], [(1, 2)], [(0.5, 3), (0.5, 2)], [(1, 3)]], [3], [0, 2, 1, 0])


def paid_final():
    """a rewarded final state that is not absorbing (it moves on to a reward-free sink)"""
    return Game("paid_final", [P1, PR, PR, PR, PR, PR],
                [[("a", 1), ("b", 2)], [(0.5, 3), (0.5, 4)], [(0.25, 3), (0.75, 4)], [(1, 5)], [(1, 4)], [(1, 5)]], [3],
                [1, 2, 1, 4, 0, 0], stopping=False)


def orphans(order=0):
    """a chain of chance / Player 2 states that nothing points at once Player 1 is restricted to its
    reachability-optimal action; `order` varies where the chain sits in the numbering"""
    # abstract states: s0 P1 [a->good, b->c1]; good PR -> F/D ; c1 P2 -> c2 ; c2 PR -> c3 ; c3 PR -> (F, D) worse odds
    names = {0: ["s0", "good", "c1", "c2", "c3", "F", "D"], 1: ["s0", "c3", "c2", "c1", "good", "F", "D"],
             2: ["s0", "c2", "good", "c3", "c1", "D", "F"]}[order]
    idx = {n: i for i, n in enumerate(names)}
    spec = {"s0": (P1, 0, [("a", "good"), ("b", "c1")]), "good": (PR, SYM, [(0.75, "F"), (0.25, "D")]),
            "c1": (P2, 1, [("x", "c2")]), "c2": (PR, 2, [(1, "c3")]), "c3": (PR, SYM, [(0.25, "F"), (0.75, "D")]),
            "F": (PR, 0, [(1, "F")]), "D": (PR, 0, [(1, "D")])}
    pl = [spec[n][0] for n in names]
    rw = [spec[n][1] for n in names]
    tl = [[(x, idx[t]) for x, t in spec[n][2]] for n in names]
    return Game("orphans(%d)" % order, pl, tl, [idx["F"]], rw)


def p1_final(owner=P1, descending=False):
    """a final state that is owned by a player, is not absorbing and has actions of different value and reward
    (optionally with the final states listed in descending order)"""
    return Game("p1_final(%s%s)" % (owner[-1], ",desc" if descending else ""), [PR, owner, PR, PR, PR, PR],
                [[(1, 1)], [("stay", 2), ("leave", 3)], [(1, 4)], [(0.5, 4), (0.5, 5)], [(1, 4)], [(1, 5)]], [4, 1] if descending else [1, 4],
                [0, 0, 1, 5, 0, 0])


def init_final():
    """the initial state is itself final (value 1) and not absorbing"""
    return Game("init_final", [PR, PR, PR, PR], [[(0.5, 1), (0.5, 2)], [(1, 3)], [(1, 2)], [(1, 3)]], [0, 3], [1, 2, 0, 0])


def big_rewards(owner=P2, order=(0, 1, 2)):
    """rewards of the order of 10^6 that differ by whole units"""
    acts = [("x", 1), ("y", 2), ("z", 3)]
    acts = [acts[i] for i in order]
    return Game("big_rewards(%s,%s)" % (owner[-1], "".join(map(str, order))), [owner, PR, PR, PR, PR],
                [acts, [(1, 4)], [(1, 4)], [(1, 4)], [(1, 4)]], [4], [0, 3000000, 3000002, 3000000, 0])


def dup_actions():
    """a Player 1 state that uses the same action name on two transitions"""
    return Game("dup_actions", [P1, PR, PR, PR, PR],
                [[("north", 1), ("north", 2), ("east", 3)], [(1, 4)], [(1, 4)], [(1, 4)], [(1, 4)]], [4], [0, 10, 1, 5, 0])


def decimals():
    """decimal probabilities whose float sum is not exactly 1 (0.6 + 0.3 + 0.1)"""
    return Game("decimals", [P1, PR, PR, PR, PR],
                [[("a", 1), ("b", 2)], [(0.6, 3), (0.3, 3), (0.1, 4)], [(0.7, 3), (0.2, 4), (0.1, 3)], [(1, 3)], [(1, 4)]], [3],
                [0, SYM, SYM, 0, 0])


def tie_small():
    """an exact tie below 0.1: 1/20 directly versus 1/20 as the limit of a chance self-loop"""
    return Game("tie_small", [P1, PR, PR, PR, PR, P2],
                [[("a", 1), ("b", 2), ("c", 5)], [(0.05, 3), (0.95, 4)], [(0.2, 2), (0.04, 3), (0.76, 4)], [(1, 3)], [(1, 4)],
                 [("u", 1), ("v", 2)]], [3], [0, 1, 1, 0, 0, 0])      # (concrete rewards: the self-loop makes symbolic ones dear)


def all_live_orphan():
    """every state has positive reachability value, and one chance state is pointed at by nobody"""
    return Game("all_live_orphan", [P1, PR, PR, PR, PR],
                [[("a", 1), ("b", 2)], [(0.5, 3), (0.5, 2)], [(1, 3)], [(1, 3)], [(0.5, 1), (0.5, 3)]], [3], [1, 2, 1, 0, 7])


def p2_shared(variant):
    """two games with an identical Player 2 node (index, reward, transitions) whose successors differ in value"""
    pa, pb = (0.25, 0.75) if variant == "a" else (0.75, 0.25)
    return Game("p2_shared(%s)" % variant, [P1, P2, PR, PR, PR, PR],
                [[("go", 1), ("alt", 3)], [("x", 2), ("y", 3)], [(pa, 4), (1 - pa, 5)], [(pb, 4), (1 - pb, 5)], [(1, 4)], [(1, 5)]], [4],
                [0, 1, 3, 1, 0, 0])


def dead_branch_rewards():
    """a losing branch that collects reward for two steps before it is absorbed (matters with pruning off)"""
    return Game("dead_branch_rewards", [P1, PR, PR, PR, PR, PR],
                [[("a", 1), ("b", 2)], [(0.5, 5), (0.5, 4)], [(1, 3)], [(1, 4)], [(1, 4)], [(1, 5)]], [5], [1, 2, 3, 5, 0, 0])


def corridor(n=60, reverse=False, reward=2):
    """a long corridor of chance states, numbered in walking order (or backwards), every tile paying the same"""
    order = list(range(1, n + 1))
    if reverse:
        order = order[::-1]
    idx = {0: 0}
    for k, o in enumerate(order):
        idx[k + 1] = o
    F, D = n + 1, n + 2
    tl = [None] * (n + 3)
    rw = [0] * (n + 3)
    for k in range(n + 1):
        nxt = idx[k + 1] if k < n else F
        tl[idx[k]] = [(0.999, nxt), (0.001, D)] if k % 7 == 3 else [(1, nxt)]
        rw[idx[k]] = reward
    tl[F], tl[D] = [(1, F)], [(1, D)]
    return Game("corridor(%d,%s)" % (n, "rev" if reverse else "fwd"), [PR] * (n + 3), tl, [F], rw)


def huge_reward(owner=P1):
    """a player state carrying a reward so large that adding a small successor value to it is absorbed in doubles"""
    return Game("huge_reward(%s)" % owner[-1], [owner, PR, PR, PR], [[("small", 1), ("big", 2)], [(1, 3)], [(1, 3)], [(1, 3)]], [3],
                [1e17, 5, 7, 0])


def zero_branch():
    """a chance state with an explicit probability-0 branch that is the only way into a chance state"""
    return Game("zero_branch", [P1, PR, PR, PR, PR, PR],
                [[("a", 1), ("b", 3)], [(0.0, 2), (1.0, 3)], [(1, 4)], [(0.5, 4), (0.5, 5)], [(1, 4)], [(1, 5)]], [4],
                [0, 1, 5, 2, 0, 0])


def decimals2():
    """another decimal distribution whose float sum is not exactly 1 under naive summation (0.01 + 0.29 + 0.7)"""
    return Game("decimals2", [PR, PR, PR, PR], [[(0.01, 1), (0.29, 2), (0.7, 3)], [(1, 2)], [(1, 2)], [(1, 3)]], [2], [1, 2, 0, 0])


def tiny_vs_dead():
    """Player 1 between a successor of tiny positive value (1e-7) and a rewarded dead branch"""
    return Game("tiny_vs_dead", [PR, P1, PR, PR, PR, PR],
                [[(0.5, 1), (0.5, 4)], [("a", 2), ("b", 3)], [(1e-7, 4), (1 - 1e-7, 5)], [(1, 5)], [(1, 4)], [(1, 5)]], [4],
                [1, 1, 2, 100, 0, 0])


def cancel_mass():
    """the dead successor carries almost all the mass: 1 - lost cancels, the surviving mass does not"""
    return Game("cancel_mass", [PR, PR, PR, PR], [[(2e-16, 1), (1 - 2e-16, 3)], [(1, 2)], [(1, 2)], [(1, 3)]], [2], [10, 100, 0, 0])


def p2_selfloop():
    """a Player 2 state that may wait on a self-loop forever (value 0) next to an action of positive value"""
    return Game("p2_selfloop", [P1, PR, P2, PR, PR, PR],
                [[("safe", 1), ("risky", 2)], [(0.5, 4), (0.5, 5)], [("wait", 2), ("go", 3)], [(0.9, 4), (0.1, 5)], [(1, 4)], [(1, 5)]], [4],
                [0, 0, 0, 0, 0, 0], stopping=False)


def order_sum():
    """a distribution whose float sum is 1.0 in the written order and 1.0000000000000002 reversed or rotated"""
    return Game("order_sum", [P1, PR, PR, PR, PR], [[("a", 1), ("b", 2)], [(0.1, 3), (0.34, 4), (0.56, 3)], [(0.11, 3), (0.33, 3), (0.56, 4)],
                                                   [(1, 3)], [(1, 4)]], [3], [0, SYM, SYM, 0, 0])


def zero_dead():
    """chance states whose dead successors carry probability exactly 0 (e.g. a loose tile that breaks with probability 0)"""
    return Game("zero_dead", [PR, PR, PR, PR, PR, P2],
                [[(0.0, 4), (1.0, 1)], [(0.5, 2), (0, 5), (0.5, 3), (0.0, 4)], [(1, 3)], [(1, 3)], [(1, 4)], [("x", 4)]], [3],
                [1, 2, 1, 0, 0, 5])


def zero_alive():
    """a (dead) chance state whose only live successor is reached with probability 0"""
    return Game("zero_alive", [PR, PR, PR, PR], [[(0.5, 1), (0.5, 2)], [(0.0, 2), (1.0, 3)], [(1, 2)], [(1, 3)]], [2], [SYM, 1, 0, 0])


def final_to_dead():
    """a final state (numbered below its predecessor) that is not absorbing and whose only successor is dead"""
    return Game("final_to_dead", [P1, PR, PR, PR], [[("in", 2), ("out", 3)], [(1, 3)], [(1.0, 1)], [(1, 3)]], [1], [SYM, 0, SYM, 0])


def slow_chain():
    """KF-1: self-loop of probability 1-1e-7; value iteration stops far from the value"""
    return Game("slow_chain", [PR, PR], [[(1 - 1e-7, 0), (1e-7, 1)], [(1, 1)]], [1], [0, 0])


# ----------------------------------------------------------------------------- exact oracles
def _fr(x):
    return Fraction(x)


def chain_values(n, trans, finals, target="reach", rewards=None):
    """Exact solution of a finite Markov chain given as trans[s] = [(prob Fraction, t)]:
    reach: probability of ever visiting a final state (least fixed point);
    steps: expected number of steps until absorption (None at states that may never be absorbed)."""
    fin = set(finals)
    if target == "reach":
        can = set(fin)
        ch = True
        while ch:
            ch = False
            for s in range(n):
                if s not in can and any(p > 0 and t in can for p, t in trans[s]):
                    can.add(s)
                    ch = True
        unk = [s for s in range(n) if s in can and s not in fin]
        base = {s: Fraction(1) for s in fin}
        for s in range(n):
            if s not in can:
                base[s] = Fraction(0)
        const = lambda s: Fraction(0)
    else:
        absorbing = {s for s in range(n) if all(t == s for _, t in trans[s]) or not trans[s]}
        can_reach = set(absorbing)
        ch = True
        while ch:
            ch = False
            for s in range(n):
                if s not in can_reach and any(p > 0 and t in can_reach for p, t in trans[s]):
                    can_reach.add(s)
                    ch = True
        # a state is surely absorbed iff every state reachable from it can reach an absorbing state
        def reachable(s):
            seen = {s}
            st = [s]
            while st:
                u = st.pop()
                for p, t in trans[u]:
                    if p > 0 and t not in seen:
                        seen.add(t)
                        st.append(t)
            return seen
        sure = {s for s in range(n) if reachable(s) <= can_reach}
        unk = [s for s in sure if s not in absorbing]
        base = {s: Fraction(0) for s in absorbing}
        for s in range(n):
            if s not in sure:
                base[s] = None
        const = lambda s: Fraction(1)
    # solve x_s = const(s) + sum p x_t over unknowns
    m = len(unk)
    pos = {s: i for i, s in enumerate(unk)}
    A = [[Fraction(0)] * (m + 1) for _ in range(m)]
    for s in unk:
        i = pos[s]
        A[i][i] += 1
        A[i][m] += const(s)
        for p, t in trans[s]:
            if t in pos:
                A[i][pos[t]] -= p
            else:
                bt = base.get(t)
                if bt is None:
                    raise ValueError("chain not absorbing")
                A[i][m] += p * bt
    for c in range(m):
        piv = next(r for r in range(c, m) if A[r][c] != 0)
        A[c], A[piv] = A[piv], A[c]
        inv = 1 / A[c][c]
        A[c] = [x * inv for x in A[c]]
        for r in range(m):
            if r != c and A[r][c] != 0:
                f = A[r][c]
                A[r] = [x - f * y for x, y in zip(A[r], A[c])]
    out = dict(base)
    for s in unk:
        out[s] = A[pos[s]][m]
    return [out[s] for s in range(n)]


def _strategies(players, tl, who):
    idx = [s for s, p in enumerate(players) if p == who and tl[s]]
    for combo in itertools.product(*[range(len(tl[s])) for s in idx]):
        yield dict(zip(idx, combo))


def exact_reach(players, tl, finals, conv=None):
    """max over Player 1 / min over Player 2 memoryless strategies of exact chain values (Fractions);
    conv maps probability literals to rationals (default: the exact value of the double)"""
    _fr = conv or Fraction
    n = len(players)
    best = None
    for s1 in _strategies(players, tl, P1):
        worst = None
        for s2 in _strategies(players, tl, P2):
            trans = []
            for s in range(n):
                if players[s] == PR:
                    trans.append([(_fr(p), t) for p, t in tl[s]])
                else:
                    k = (s1 if players[s] == P1 else s2)[s]
                    trans.append([(Fraction(1), tl[s][k][1])])
            v = chain_values(n, trans, finals)
            worst = v if worst is None else [min(a, b) for a, b in zip(worst, v)]
        best = worst if best is None else [max(a, b) for a, b in zip(best, worst)]
    return best


def max_steps(players, tl):
    """largest expected number of steps to absorption over all memoryless strategy pairs and states
    (None if some pair may avoid absorption)"""
    n = len(players)
    worst = Fraction(0)
    for s1 in _strategies(players, tl, P1):
        for s2 in _strategies(players, tl, P2):
            trans = []
            for s in range(n):
                if players[s] == PR:
                    trans.append([(_fr(p), t) for p, t in tl[s]])
                else:
                    k = (s1 if players[s] == P1 else s2)[s]
                    trans.append([(Fraction(1), tl[s][k][1])])
            try:
                v = chain_values(n, trans, [], target="steps")
            except ValueError:
                return None
            if any(x is None for x in v):
                return None
            worst = max(worst, max(v))
    return worst


def dec(x):
    """the rational a probability literal denotes (0.1 -> 1/10), for tie oracles"""
    return Fraction(str(x)) if isinstance(x, float) else Fraction(x)


def exact_rewards(players, ctl, rewards, conv=Fraction):
    """max over Player 1 / min over Player 2 memoryless strategies of the exact expected total reward of the
    (conditioned, stopping) game ctl; conv maps probability literals to rationals"""
    n = len(players)

    def chain(trans):
        absorbing = {s for s in range(n) if not trans[s] or all(t == s for _, t in trans[s])}
        unk = [s for s in range(n) if s not in absorbing]
        pos = {s: i for i, s in enumerate(unk)}
        m = len(unk)
        A = [[Fraction(0)] * (m + 1) for _ in range(m)]
        for s in unk:
            i = pos[s]
            A[i][i] += 1
            A[i][m] += conv(rewards[s])
            for p, t in trans[s]:
                if t in pos:
                    A[i][pos[t]] -= p
        for c in range(m):
            piv = next((r for r in range(c, m) if A[r][c] != 0), None)
            if piv is None:
                raise ValueError("not a stopping chain")
            A[c], A[piv] = A[piv], A[c]
            inv = 1 / A[c][c]
            A[c] = [x * inv for x in A[c]]
            for r in range(m):
                if r != c and A[r][c] != 0:
                    f = A[r][c]
                    A[r] = [x - f * y for x, y in zip(A[r], A[c])]
        out = [Fraction(0)] * n
        for s in unk:
            out[s] = A[pos[s]][m]
        return out
    best = None
    for s1 in _strategies(players, ctl, P1):
        worst = None
        for s2 in _strategies(players, ctl, P2):
            trans = []
            for s in range(n):
                if not ctl[s]:
                    trans.append([])
                elif players[s] == PR:
                    trans.append([(conv(p), t) for p, t in ctl[s]])
                else:
                    k = (s1 if players[s] == P1 else s2)[s]
                    trans.append([(Fraction(1), ctl[s][k][1])])
            v = chain(trans)
            worst = v if worst is None else [min(a, b) for a, b in zip(worst, v)]
        best = worst if best is None else [max(a, b) for a, b in zip(best, worst)]
    return best


def has_path(tl, finals):
    n = len(tl)
    can = set(finals)
    ch = True
    while ch:
        ch = False
        for s in range(n):
            if s not in can and any(t in can for _, t in tl[s]):
                can.add(s)
                ch = True
    return can


# ----------------------------------------------------------------------------- reference conditioning
def condition(players, tl, probs, reach_strats, prune):
    """the conditioned game exactly as the C02/C03 statements define it, from the input description
    and the reported probabilities / reachability strategies"""
    out = []
    for s, (pl, tr) in enumerate(zip(players, tl)):
        tr = list(tr)
        if pl == P1:
            tr = [(a, t) for a, t in tr if a in reach_strats[s]]
        if prune and pl in (P1, PR):
            alive = [(x, t) for x, t in tr if probs[t] != 0]
            if pl == PR and alive and len(alive) != len(tr):
                mass = sum(x for x, _ in alive)
                if is_sym(mass) or mass != 0:      # (survivors without any mass: nothing to redistribute; the state is dead itself)
                    alive = [(x / mass, t) for x, t in alive]
            tr = alive
        out.append(tr)
    return out


def reach_from0(tl):
    seen = {0}
    st = [0]
    while st:
        u = st.pop()
        for _, v in tl[u]:
            if v not in seen:
                seen.add(v)
                st.append(v)
    return seen


def absorbing_or_empty(tr, s):
    return (not tr) or all(t == s for _, t in tr)


def bellman_rewards(players, ctl, states, rew, tag="w"):
    """SMT unknowns w_s with the conditioned game's max-min total-reward equations"""
    w = {s: z3.Real("%s%d" % (tag, s)) for s in states}
    cons = []
    for s in states:
        tr = ctl[s]
        if absorbing_or_empty(tr, s):
            cons.append(w[s] == 0)
            continue
        cons.append(w[s] >= 0)
        succ = [w[t] for _, t in tr]
        r = to_real(rew[s])
        if players[s] == P1:
            m = succ[0]
            for x in succ[1:]:
                m = z3.If(x > m, x, m)
            cons.append(w[s] == r + m)
        elif players[s] == P2:
            m = succ[0]
            for x in succ[1:]:
                m = z3.If(x < m, x, m)
            cons.append(w[s] == r + m)
        else:
            cons.append(w[s] == r + z3.Sum([to_real(p) * w[t] for p, t in tr]))
    return w, cons


def linear_under(players, ctl, states, rew, pick, kind, finals, tag):
    """kind 'q': probability of reaching a final state when player states follow pick[s] (list of labels;
    several -> the cheapest, i.e. min); kind 'm': expected total reward likewise"""
    x = {s: z3.Real("%s%d" % (tag, s)) for s in states}
    cons = []
    for s in states:
        tr = ctl[s]
        if kind == "q" and s in finals:
            cons.append(x[s] == 1)
            continue
        if absorbing_or_empty(tr, s):
            cons.append(x[s] == 0)
            continue
        cons.append(x[s] >= 0)
        base = to_real(rew[s]) if kind == "m" else z3.RealVal(0)
        if players[s] == PR:
            cons.append(x[s] == base + z3.Sum([to_real(p) * x[t] for p, t in tr]))
        else:
            opts = [x[t] for a, t in tr if a in pick[s]]
            if not opts:
                cons.append(x[s] == 0)
                continue
            m = opts[0]
            for o in opts[1:]:
                m = z3.If(o < m, o, m)
            cons.append(x[s] == base + m)
    return x, cons


def near_chain(owner=P1, order=(0, 1, 2)):
    """three successors whose values form a chain of near-ties (8e-7 apart: closer than the rounding unit, yet rounding to three
    different 6-digit values); the middle one pays most"""
    acts = [("a", 1), ("b", 2), ("c", 3)]
    acts = [acts[i] for i in order]
    return Game("near_chain(%s,%s)" % (owner[-1], "".join(map(str, order))), [owner, PR, PR, PR, PR, PR],
                [acts, [(0.5000016, 4), (0.4999984, 5)], [(0.5000008, 4), (0.4999992, 5)], [(0.5, 4), (0.5, 5)], [(1, 4)], [(1, 5)]], [4],
                [0, 1, 9, 3, 0, 0])


def near_sep(owner=P1, order=(0, 1, 2)):
    """three successors whose values are 1.2e-6 apart: just beyond the solver's tolerance (1e-6), far inside the 1e-5 window"""
    acts = [("a", 1), ("b", 2), ("c", 3)]
    acts = [acts[i] for i in order]
    return Game("near_sep(%s,%s)" % (owner[-1], "".join(map(str, order))), [owner, PR, PR, PR, PR, PR],
                [acts, [(0.5000024, 4), (0.4999976, 5)], [(0.5000012, 4), (0.4999988, 5)], [(0.5, 4), (0.5, 5)], [(1, 4)], [(1, 5)]], [4],
                [0, 1, 9, 3, 0, 0])
