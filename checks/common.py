"""Helpers shared by the harnesses: dual-mode (symbolic / native) spec arithmetic,
guarded state lists, cut lists."""
import z3

from symex import core, repo
from symex.core import SymReal, SymInt, SymBool, to_real, to_int, zabs, zmax, zmin, PathCut

P1, P2, PR = "Player 1", "Player 2", "Probabilistic"


def is_sym(x):
    return type(x) in (SymReal, SymInt, SymBool)


def any_sym(xs):
    return any(is_sym(x) for x in xs)


def vmax(xs):
    xs = list(xs)
    if any_sym(xs):
        return SymReal(zmax([to_real(x) for x in xs]))
    return max(xs)


def vmin(xs):
    xs = list(xs)
    if any_sym(xs):
        return SymReal(zmin([to_real(x) for x in xs]))
    return min(xs)


def vabs(x):
    return abs(x)


def vsum(xs):
    s = 0
    for x in xs:
        s = s + x
    return s


def b_and(*cs):
    """conjunction of dual-mode conditions"""
    if any(type(c) is SymBool or z3.is_expr(c) for c in cs):
        return SymBool(z3.And([core.as_z3_bool(c) for c in cs]))
    return all(cs)


def b_or(*cs):
    if any(type(c) is SymBool or z3.is_expr(c) for c in cs):
        return SymBool(z3.Or([core.as_z3_bool(c) for c in cs]))
    return any(cs)


def b_not(c):
    if type(c) is SymBool:
        return ~c
    if z3.is_expr(c):
        return SymBool(z3.Not(c))
    return not c


def b_iff(a, b):
    if type(a) is SymBool or type(b) is SymBool:
        return SymBool(core.as_z3_bool(a) == core.as_z3_bool(b))
    return bool(a) == bool(b)


def b_implies(a, b):
    return b_or(b_not(a), b)


class GuardedList(list):
    """A state list that only lets the code read the indices a node is entitled
    to (its own successors): enforces the locality premise of the node lemmas."""

    def allow(self, idxs):
        self._allowed = set(idxs)
        return self

    def __getitem__(self, i):
        if isinstance(i, slice):
            raise AssertionError("locality: slice read of the state list")
        j = int(i)
        if j < 0:
            j += len(self)
        if j not in self._allowed:
            raise AssertionError("locality: state_list[%d] read by a node that does not point to it" % j)
        return list.__getitem__(self, j)

    def __iter__(self):
        raise AssertionError("locality: iteration over the state list inside a node method")


class CutList(list):
    """list whose iteration number N_cut+1 raises PathCut (sweep counter)."""

    def __init__(self, items=(), budget=1):
        super().__init__(items)
        self.sweeps = 0
        self.budget = budget

    def __iter__(self):
        self.sweeps += 1
        if self.sweeps > self.budget:
            raise PathCut()
        return list.__iter__(self)


def sym_int(x=0, *a):
    """proxy-aware builtin int: truncation toward zero of a symbolic real"""
    if type(x) is SymReal:
        sp = core.Space.cur
        k = z3.Int(sp.fresh("trunc"))
        t = x.t
        kr = z3.ToReal(k)
        sp.add(z3.If(t >= 0, z3.And(kr <= t, t < kr + 1), z3.And(kr - 1 < t, t <= kr)))
        return SymInt(k)
    if type(x) is SymInt:
        return x
    return int(x, *a)


def sym_float(x=0.0):
    if type(x) is SymReal:
        return x
    if type(x) is SymInt:
        return SymReal(to_real(x))
    return float(x)


class _IntMeta(type):
    def __instancecheck__(cls, obj):
        return isinstance(obj, int)

    def __call__(cls, *a, **k):
        return sym_int(*a, **k)


class ProxyInt(metaclass=_IntMeta):
    """stands in for the builtin `int` inside the code under test: isinstance() behaves as for int,
    calling it converts proxies symbolically"""


class _FloatMeta(type):
    def __instancecheck__(cls, obj):
        return isinstance(obj, float)

    def __call__(cls, *a, **k):
        return sym_float(*a, **k)


class ProxyFloat(metaclass=_FloatMeta):
    pass


PROXY_BUILTINS = {"int": ProxyInt, "float": ProxyFloat}

import math as _math


class SymMath:
    """`math` as seen by the code under test: the real module for native numbers, exact-real models of the
    comparison / rounding helpers for proxies (transcendental functions of a proxy are out of reach)"""

    def __getattr__(self, name):
        f = getattr(_math, name)
        if not callable(f):
            return f

        def wrapper(*a, **k):
            if any(is_sym(x) for x in a) or any(is_sym(x) for x in k.values()):
                raise core.Inconclusive("math.%s of a symbolic value is not modelled" % name)
            return f(*a, **k)
        return wrapper

    def isclose(self, a, b, *, rel_tol=1e-09, abs_tol=0.0):
        if not (is_sym(a) or is_sym(b)):
            return _math.isclose(a, b, rel_tol=rel_tol, abs_tol=abs_tol)
        ta, tb = to_real(a), to_real(b)
        d = zabs(ta - tb)
        big = zmax([zabs(ta), zabs(tb)])
        return SymBool(z3.Or(ta == tb, d <= zmax([core.rat(rel_tol) * big, core.rat(abs_tol)])))

    def fabs(self, x):
        return abs(x) if is_sym(x) else _math.fabs(x)

    def floor(self, x):
        if type(x) is SymReal:
            sp = core.Space.cur
            k = z3.Int(sp.fresh("floor"))
            sp.add(z3.ToReal(k) <= x.t, x.t < z3.ToReal(k) + 1)
            return SymInt(k)
        return x if type(x) is SymInt else _math.floor(x)

    def ceil(self, x):
        if type(x) is SymReal:
            sp = core.Space.cur
            k = z3.Int(sp.fresh("ceil"))
            sp.add(z3.ToReal(k) - 1 < x.t, x.t <= z3.ToReal(k))
            return SymInt(k)
        return x if type(x) is SymInt else _math.ceil(x)

    def trunc(self, x):
        return sym_int(x) if is_sym(x) else _math.trunc(x)

    def isnan(self, x):
        return False if is_sym(x) else _math.isnan(x)

    def isinf(self, x):
        return False if is_sym(x) else _math.isinf(x)

    def isfinite(self, x):
        return True if is_sym(x) else _math.isfinite(x)


def with_math(mod):
    mod.math = SymMath()
    return mod
_lemma = {}


def tadm():
    """tad.py as used by the lemma harnesses: unmodified source, proxy-aware int()/float() as module globals"""
    if "tad" not in _lemma:
        _lemma["tad"] = with_math(repo.load("tad", overrides=dict(PROXY_BUILTINS), imports={"reverse_dfs": repo.std().reverse_dfs},
                                            alias="tad_lemma"))
    return _lemma["tad"]


def mk_node(kind, idx, reward, next_states, n, final=False):
    t = tadm()
    cls = {P1: t.PlayerOne, P2: t.PlayerTwo, PR: t.ProbabilisticNode}[kind]
    return cls(player=kind, idx=idx, reward=reward, next_states=next_states, num_states=n, is_final_node=final)


def probs(sp, name, k, total=1):
    """k symbolic probabilities > 0 summing to total (Inv_prob)."""
    ps = [sp.real("%s%d" % (name, i), 0, None, lo_open=True) for i in range(k)]
    sp.assume(sp.eq(vsum(ps), total))
    return ps


def pick(sp, params, name, n):
    """hole: concrete if the job fixes it, otherwise a solver-driven case split"""
    if name in params and params[name] is not None:
        return params[name]
    return sp.choice(name, n)


def sym_max(*args, **kw):
    """proxy-aware builtin max (state merging: no fork on symbolic arguments)"""
    xs = list(args[0]) if len(args) == 1 else list(args)
    if kw or not any_sym(xs):
        return max(*args, **kw)
    return vmax(xs)


def sym_min(*args, **kw):
    xs = list(args[0]) if len(args) == 1 else list(args)
    if kw or not any_sym(xs):
        return min(*args, **kw)
    return vmin(xs)


_merged = {}


def tad_merged():
    """tad.py loaded with proxy-aware max/min as module globals (the three-way
    max(...) inside the reward loop then merges instead of forking)"""
    if "tad" not in _merged:
        std = repo.std()
        _merged["tad"] = with_math(repo.load("tad", overrides=dict(PROXY_BUILTINS, max=sym_max, min=sym_min),
                                             imports={"reverse_dfs": std.reverse_dfs}, alias="tad_merged"))
    return _merged["tad"]
