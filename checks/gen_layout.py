"""C08 G2 / C11: the real write_robots -> text -> real read_dict_from_file round trip on every board with few
tiles, symbolic rewards and probabilities, compared with a reference Roborta game written from the property statement."""
import itertools

import z3

from symex import repo, core
from symex.core import SymInt, SymReal, to_real
from symex.runner import harness
from .common import *
from .batch import FakeFile

_mods = {}


def _ident_int(x, *a):
    if type(x) in (SymInt,):
        return x
    return int(x, *a)


def mods():
    if "gen" not in _mods:
        std = repo.std()
        _mods["gen"] = repo.load("roberta_generator", overrides={"open": FakeFile, "int": _ident_int}, alias="roberta_generator_mem")
        _mods["cr"] = repo.load("conditionalrewards", overrides={"open": FakeFile},
                                imports={"tad": std.tad, "reverse_dfs": std.reverse_dfs}, alias="conditionalrewards_mem")
        _mods["board"] = repo.load("stochastic_game_from_roborta_board", imports={"roberta_generator": _mods["gen"]}, alias="board_mem")
    return _mods["gen"], _mods["cr"], _mods["board"]


# ------------------------------------------------------------------ reference model (from the statement)
def ref_game(variant, L, W, moves, loose, rewards, p_tile, p_robot, p_light):
    """abstract state -> (owner, reward, transitions[(label | probability, abstract target)])"""
    def below(i, j):
        return ("land", i + 1, j) if i < L - 1 else "win"

    def left(i, j):
        return ("land", i, (j - 1) % W)

    def right(i, j):
        return ("land", i, (j + 1) % W)
    g = {"win": (PR, 0, [(1, "win")]), "lose": (PR, 0, [(1, "lose")])}
    for i in range(L):
        for j in range(W):
            a = moves[i][j]
            can_l, can_r = a in (0, 1), a in (1, 2)
            # the light's turn: reward collected here
            tr = [("Green", ("green", i, j))]
            if a != 3:
                tr.append(("Yellow", ("yellow", i, j)))
            g[("light", i, j)] = (P2, rewards[i][j], tr)
            # landing on a tile
            if loose[i][j] == 1:
                g[("land", i, j)] = (PR, 0, [(p_tile, "lose"), (1 - p_tile, ("light", i, j))])
            else:
                g[("land", i, j)] = (PR, 0, [(1, ("light", i, j))])
            # robot moves; in B and C a robot failure re-lands it on its own tile
            if variant == "a":
                mv = {"Down": below(i, j), "Left": left(i, j), "Right": right(i, j)}
            else:
                mv = {"Down": ("dfail", i, j), "Left": ("lfail", i, j), "Right": ("rfail", i, j)}
                g[("dfail", i, j)] = (PR, 0, [(p_robot, ("land", i, j)), (1 - p_robot, below(i, j))])
                g[("lfail", i, j)] = (PR, 0, [(p_robot, ("land", i, j)), (1 - p_robot, left(i, j))])
                g[("rfail", i, j)] = (PR, 0, [(p_robot, ("land", i, j)), (1 - p_robot, right(i, j))])
            down_only = [("Down", mv["Down"])]
            lr = ([("Left", mv["Left"])] if can_l else []) + ([("Right", mv["Right"])] if can_r else [])
            g[("down", i, j)] = (P1, 0, down_only)
            g[("lr", i, j)] = (P1, 0, lr)
            g[("free", i, j)] = (P1, 0, down_only + lr)
            if variant == "c":   # a light failure lets the robot choose freely
                g[("green", i, j)] = (PR, 0, [(p_light, ("free", i, j)), (1 - p_light, ("down", i, j))])
                g[("yellow", i, j)] = (PR, 0, [(p_light, ("free", i, j)), (1 - p_light, ("lr", i, j))])
    if variant != "c":
        # no light failures: Green/Yellow lead straight to the robot's constrained choice
        for k in list(g):
            if isinstance(k, tuple) and k[0] == "light":
                o, r, tr = g[k]
                g[k] = (o, r, [(lab, ("down" if t[0] == "green" else "lr",) + t[1:]) for lab, t in tr])
    return g


def check_iso(sp, game, ref, variant):
    """synchronised traversal from the initial states: the emitted game restricted to what is reachable from state 0 is
    isomorphic to the reference game (equal owners, rewards, finals, labels, probabilities)"""
    players, rewards, tl, finals = game["players"], game["rewards"], game["transition_list"], game["final_states"]
    n = len(players)
    sp.prove(len(rewards) == n and len(tl) == n, "game %s: list lengths disagree" % variant)
    fwd, bwd = {0: ("light", 0, 0)}, {("light", 0, 0): 0}
    todo = [0]

    def link(e, a, ctx):
        sp.prove(isinstance(e, int) and not isinstance(e, bool) and 0 <= e < n, "game %s: %s leads to index %r" % (variant, ctx, e))
        if e in fwd or a in bwd:
            sp.prove(fwd.get(e) == a and bwd.get(a) == e, "game %s: %s leads to state %d = %s, expected %s" % (variant, ctx, e, fwd.get(e), a))
        else:
            fwd[e], bwd[a] = a, e
            todo.append(e)
    while todo:
        e = todo.pop()
        a = fwd[e]
        owner, rew, tr = ref[a]
        ctx = "%s(=state %d)" % (a, e)
        sp.prove(players[e] == owner, "game %s: %s is owned by %r, expected %r" % (variant, ctx, players[e], owner))
        sp.prove(sp.eq(rewards[e], rew) if (is_sym(rewards[e]) or is_sym(rew)) else rewards[e] == rew,
                 "game %s: %s has the wrong reward" % (variant, ctx))
        sp.prove((e in finals) == (a == "win"), "game %s: %s final flag" % (variant, ctx))
        got = tl[e]
        sp.prove(isinstance(got, list) and len(got) == len(tr), "game %s: %s has %d transitions, expected %d" % (variant, ctx, len(got), len(tr)))
        if owner != PR:
            labs = [x[0] for x in got]
            sp.prove(sorted(labs) == sorted(l for l, _ in tr), "game %s: %s offers %s, expected %s" % (variant, ctx, labs, [l for l, _ in tr]))
            for lab, t in tr:
                e2 = [x[1] for x in got if x[0] == lab][0]
                link(e2, t, "%s --%s-->" % (ctx, lab))
        else:
            order = list(range(len(tr)))
            if len(tr) == 2 and not bool(sp.eq(got[0][0], tr[0][0])):
                order = [1, 0]
            for k, (p, t) in zip(order, tr):
                sp.prove(sp.eq(got[k][0], p), "game %s: %s chance transition has the wrong probability" % (variant, ctx))
                link(got[k][1], t, "%s --chance-->" % ctx)
    return fwd


SHAPES = [(1, 1), (1, 2), (2, 1), (1, 3), (3, 1), (1, 4), (4, 1), (2, 2)]


def _layout_jobs(tier, seed):
    jobs = []
    for (L, W) in SHAPES:
        t = L * W
        if tier == "quick" and t > 3:
            continue
        if t <= 2:
            jobs.append(dict(L=L, W=W, first=None, two_step=True, _cost=8 ** t))
        else:
            for first in range(8):
                for second in (range(8) if t == 4 and tier != "quick" else [None]):
                    jobs.append(dict(L=L, W=W, first=first, second=second, _cost=8 ** (t - 1), _timeout_s=2400))
    if tier == "quick":
        # 4-tile boards: all arrow layouts with the loose flags tied to the arrows' parity (all 8^4 in the thorough tier)
        for (L, W) in ((1, 4), (4, 1), (2, 2)):
            for first in range(8):
                if first // 4 == (first % 4) % 2:
                    jobs.append(dict(L=L, W=W, first=first, tied_loose=True, _cost=64))
    else:
        # 5-tile boards, every layout (beyond the property's exhaustive bound)
        for (L, W) in ((1, 5), (5, 1)):
            for first in range(8):
                for second in range(8):
                    jobs.append(dict(L=L, W=W, first=first, second=second, _cost=512, _timeout_s=2400))
        # 6-tile boards (beyond the property's exhaustive bound): all arrow layouts, loose flags tied to the arrows' parity
        for (L, W) in ((2, 3), (3, 2)):
            for first in range(8):
                for second in range(8):
                    if (first // 4, second // 4) == ((first % 4) % 2, ((second % 4) + 1) % 2):
                        jobs.append(dict(L=L, W=W, first=first, second=second, tied_loose=True, _cost=300, _timeout_s=2400))
    return jobs


def _board(sp, L, W, first, second, tied_loose=False):
    moves = [[None] * W for _ in range(L)]
    loose = [[None] * W for _ in range(L)]
    rewards = [[None] * W for _ in range(L)]
    k = 0
    for i in range(L):
        for j in range(W):
            fixed = first if k == 0 else second if k == 1 else None
            if fixed is not None:
                c = fixed
            elif tied_loose:
                c = sp.choice("cell%d" % k, 4)
                c = c + 4 * ((c + k) % 2)
            else:
                c = sp.choice("cell%d" % k, 8)
            moves[i][j], loose[i][j] = c % 4, c // 4
            rewards[i][j] = sp.int("rew%d" % k, 0, None)
            k += 1
    return moves, loose, rewards


@harness("gen.layout", props=["C08", "C11"], jobs=_layout_jobs,
         covers=["width1", "length1", "arrow3", "loose", "game_a", "game_b", "game_c"],
         stubs=["open -> in-memory file shared by writer and reader", "int -> identity on symbolic ints",
                "repr of a symbolic number -> identifier resolved in the reader's namespace"],
         bounds="every board shape with <= 4 tiles (quick: <= 3 tiles plus 4-tile boards with loose flags tied to arrows; thorough adds "
                "1x5 / 5x1 boards exhaustively and 2x3 / 3x2 boards with all arrow layouts and tied loose flags), every "
                "arrow/loose layout, all rewards >= 0 (symbolic integers), all three break probabilities in (0,1) (symbolic reals)",
         desc="real write_robots -> text -> real read_dict_from_file: exactly game_a, game_b, game_c; each is, from state 0, "
              "isomorphic (owners, rewards, finals, action labels, probabilities) to the reference Roborta game of the board; "
              "each passes the real check_game/init_states, every state has a transition, chance probabilities are positive and "
              "sum to 1, the only final state is the absorbing winning state, the losing state is absorbing")
def gen_layout(sp, L, W, first=None, second=None, tied_loose=False, two_step=False):
    gen, cr, _ = mods()
    std = repo.std()
    moves, loose, rewards = _board(sp, L, W, first, second, tied_loose)
    pt, pr, pl = (sp.real(n, 0, 1, lo_open=True, hi_open=True) for n in ("p_tile", "p_robot", "p_light"))
    FakeFile.store, FakeFile.opened = {}, []
    if sp.mode != "native":
        sp.repr_registry = {}
    gen.write_robots("inputs/mem.py", L, W, moves, rewards, loose, pt, pr, pl)
    if sp.mode != "native":
        cr.__dict__.update(sp.repr_registry)
    sp.prove(FakeFile.opened == [("inputs/mem.py", "w")], "write_robots opened %s" % FakeFile.opened)
    d = cr.read_dict_from_file("inputs/mem.py")
    sp.repr_registry = None
    sp.prove(list(d.keys()) == ["game_a", "game_b", "game_c"], "file denotes games %s" % list(d.keys()))
    if W == 1:
        sp.cover("width1")
    if L == 1:
        sp.cover("length1")
    if any(3 in r for r in moves):
        sp.cover("arrow3")
    if any(1 in r for r in loose):
        sp.cover("loose")
    for variant in "abc":
        g = d["game_" + variant]
        sp.cover("game_" + variant)
        sp.prove(set(g.keys()) == {"rewards", "players", "transition_list", "final_states"}, "game keys %s" % sorted(g.keys()))
        ref = ref_game(variant, L, W, moves, loose, rewards, pt, pr, pl)
        fwd = check_iso(sp, g, ref, variant)
        # C11: proper game
        n = len(g["players"])
        win = [e for e, a in fwd.items() if a == "win"]
        sp.prove(len(win) == 1 and g["final_states"] == win, "game %s: final states %s, winning state %s" % (variant, g["final_states"], win))
        w = g["final_states"][0]
        sp.prove(g["players"][w] == PR and len(g["transition_list"][w]) == 1 and g["transition_list"][w][0][1] == w and
                 bool(sp.eq(g["transition_list"][w][0][0], 1)), "game %s: winning state is not absorbing" % variant)
        lose = [e for e, a in fwd.items() if a == "lose"]
        for l in lose:
            sp.prove(g["players"][l] == PR and [t for _, t in g["transition_list"][l]] == [l], "game %s: losing state is not absorbing" % variant)
        for s in range(n):
            tr = g["transition_list"][s]
            sp.prove(isinstance(tr, list) and len(tr) >= 1, "game %s: state %d has no transition" % (variant, s))
            if g["players"][s] == PR:
                for p, _ in tr:
                    sp.prove(p > 0, "game %s: state %d has a non-positive probability" % (variant, s))
                sp.prove(sp.eq(vsum([p for p, _ in tr]), 1), "game %s: probabilities of state %d do not sum to 1" % (variant, s))
            else:
                for lab, _ in tr:
                    sp.prove(isinstance(lab, str) and not any(x in lab for x in ("[[", "], ", "[(", "\n'")),
                             "game %s: label %r could be corrupted by the text formatting" % (variant, lab))
        sg = tad_merged().StochasticGame(prune_states=True, **g)     # (merging min/max: no fork on the order of symbolic rewards)
        sg.check_game()
        sl = sg.init_states()
        sp.prove(len(sl) == n, "game %s: init_states built %d of %d states" % (variant, len(sl), n))
    if two_step:
        # the caller edits the same board objects in place and generates again (same process, same list identities)
        moves[0][0] = (moves[0][0] + 1 + sp.choice("edit", 3)) % 4
        loose[L - 1][W - 1] = 1 - loose[L - 1][W - 1]
        FakeFile.store, FakeFile.opened = {}, []
        if sp.mode != "native":
            sp.repr_registry = {}
        gen.write_robots("inputs/mem.py", L, W, moves, rewards, loose, pt, pr, pl)
        if sp.mode != "native":
            cr.__dict__.update(sp.repr_registry)
        d2 = cr.read_dict_from_file("inputs/mem.py")
        sp.repr_registry = None
        for variant in "abc":
            check_iso(sp, d2["game_" + variant], ref_game(variant, L, W, moves, loose, rewards, pt, pr, pl), variant + " (second write after an in-place edit)")


@harness("gen.manual_layout", props=["C11", "C08"],
         jobs=lambda tier, seed: [dict(L=L, W=W, float_rewards=f) for (L, W) in ((1, 1), (1, 2), (2, 1)) for f in (False, True)],
         covers=["written"], stubs=["open -> in-memory file", "int -> identity on symbolic ints", "repr -> identifier"],
         bounds="manual entry point on every board with <= 2 tiles (all arrow/loose layouts, rewards concrete 0..2 pattern), symbolic probabilities",
         desc="real create_sg_from_board -> write_robots -> reader: same isomorphism and well-formedness as gen.layout")
def gen_manual_layout(sp, L, W, float_rewards=False):
    gen, cr, board = mods()
    moves, loose, _ = _board(sp, L, W, None, None)
    rewards = [[(i + 2 * j) % 3 for j in range(W)] for i in range(L)]
    if float_rewards:      # boards passed in by hand may carry float rewards, and rows may be tuples
        rewards = tuple(tuple(r + 0.5 for r in row) for row in rewards)
    pt, pr, pl = (sp.real(n, 0, 1, lo_open=True, hi_open=True) for n in ("p_tile", "p_robot", "p_light"))
    FakeFile.store, FakeFile.opened = {}, []
    if sp.mode != "native":
        sp.repr_registry = {}
    gen.prob_to_str, saved = (lambda p: "P"), gen.prob_to_str      # name rendering is C17's subject; probabilities are exact reals here
    board.prob_to_str, saved_b = gen.prob_to_str, board.prob_to_str
    try:
        board.create_sg_from_board(moves, rewards, loose, pr, pl, pt)
    finally:
        gen.prob_to_str, board.prob_to_str = saved, saved_b
    if sp.mode != "native":
        cr.__dict__.update(sp.repr_registry)
    sp.prove(len(FakeFile.opened) == 1 and FakeFile.opened[0][1] == "w", "files opened: %s" % FakeFile.opened)
    sp.cover("written")
    d = cr.read_dict_from_file(FakeFile.opened[0][0])
    sp.repr_registry = None
    sp.prove(list(d.keys()) == ["game_a", "game_b", "game_c"], "file denotes games %s" % list(d.keys()))
    for variant in "abc":
        check_iso(sp, d["game_" + variant], ref_game(variant, L, W, moves, loose, rewards, pt, pr, pl), variant)


# ------------------------------------------------------------------ C11 sentinel: generated games are solved or declared unsolvable
def _sent_jobs(tier, seed):
    shapes = [(1, 1), (1, 2), (2, 1)] + ([(1, 3), (3, 1)] if tier == "thorough" else [])
    jobs = []
    for (L, W) in shapes:
        for first in range(8):
            jobs.append(dict(L=L, W=W, first=first, _cost=8 ** (L * W - 1), _timeout_s=2400, _max_violations=64))
    # slowly converging parameter sets (failure probabilities close to 0 / 1) on the smallest boards
    if tier == "quick":
        jobs.append(dict(L=1, W=1, first=1, probs=[0.1, 0.1, 0.001], budget=10 ** 6, _cost=500, _timeout_s=2400))
    else:
        for first in range(8):
            for probs in ([0.1, 0.1, 0.001], [0.1, 0.999, 0.1]):
                jobs.append(dict(L=1, W=1, first=first, probs=probs, budget=10 ** 6, _cost=500, _timeout_s=2400))
    return jobs


@harness("gen.solve_sentinel", props=["C11"], jobs=_sent_jobs, sentinel=True, covers=["solved", "nosol"],
         stubs=["open -> in-memory file", "logging (tad) -> sweep counter (budget 20000 sweeps)"],
         bounds="CONCRETE runs: every board with <= 2 tiles (thorough <= 3), all arrow/loose layouts, rewards 0/1/2, probabilities 0.1 / 0.05 / 0.1; "
                "plus 1x1 boards with failure probabilities 0.001 / 0.999 (tens of thousands of sweeps; quick: one of them)",
         desc="SENTINEL (concrete runs, not a solver verdict): every generated game is solved or reported as having no solution "
              "by the real run_games, within a sweep budget")
def gen_solve_sentinel(sp, L, W, first, probs=(0.1, 0.05, 0.1), budget=20000):
    from .pipe import tad_pipe, SweepBudget
    gen, _, _ = mods()
    t = tad_pipe()
    cr = repo.load("conditionalrewards", overrides={"open": FakeFile}, imports={"tad": t, "reverse_dfs": repo.std().reverse_dfs},
                   alias="conditionalrewards_sentinel")
    moves, loose, _ = _board(sp, L, W, first, None)
    rewards = [[(i + 2 * j + 1) % 3 for j in range(W)] for i in range(L)]
    FakeFile.store, FakeFile.opened = {}, []
    gen.write_robots("inputs/s.py", L, W, moves, rewards, loose, probs[0], probs[1], probs[2])
    d = cr.read_dict_from_file("inputs/s.py")
    t.logging.reset(budget)
    try:
        out = cr.run_games(d)
    except SweepBudget:
        sp.prove(False, "a generated game was neither solved nor declared unsolvable within %d sweeps (moves=%s loose=%s)" % (budget, moves, loose))
    sp.prove(list(out.keys()) == ["game_a", "game_a_no_prune", "game_b", "game_b_no_prune", "game_c", "game_c_no_prune"], "entries %s" % list(out))
    for k, e in out.items():
        ok = e["msg"] == "Game solved" or e["msg"] == "Game not solved" or ("no solution" in e["msg"])
        sp.prove(ok, "%s: %s (moves=%s loose=%s)" % (k, e["msg"], moves, loose))
        sp.cover("solved" if e["msg"] == "Game solved" else "nosol")


# ------------------------------------------------------------------ C08 sentinel: boards with hundreds of rows / columns (concrete)
@harness("gen.tall_board", props=["C08", "C11"], sentinel=True,
         jobs=lambda tier, seed: [dict(L=L, W=W, seed=seed) for (L, W) in ((300, 1), (260, 2), (1, 300), (3, 130))],
         stubs=["open -> in-memory file"],
         bounds="CONCRETE: four boards with 260-390 tiles (300x1, 260x2, 1x300, 3x130), seeded arrows / loose flags / rewards, probabilities 0.1 / 0.2 / 0.3",
         desc="CONCRETE (not a solver verdict): on boards far beyond the exhaustive bound the three written games are, from state 0, "
              "isomorphic to the reference Roborta game (index arithmetic for hundreds of rows and columns)")
def gen_tall_board(sp, L, W, seed):
    import random
    gen, cr, _ = mods()
    rnd = random.Random(1000 * L + W + seed)
    moves = [[rnd.choice((0, 1, 1, 2, 3)) for _ in range(W)] for _ in range(L)]
    loose = [[rnd.choice((0, 0, 1)) for _ in range(W)] for _ in range(L)]
    rewards = [[rnd.randrange(0, 7) for _ in range(W)] for _ in range(L)]
    FakeFile.store, FakeFile.opened = {}, []
    gen.write_robots("inputs/tall.py", L, W, moves, rewards, loose, 0.1, 0.2, 0.3)
    d = cr.read_dict_from_file("inputs/tall.py")
    sp.prove(list(d.keys()) == ["game_a", "game_b", "game_c"], "file denotes games %s" % list(d.keys()))
    for variant in "abc":
        fwd = check_iso(sp, d["game_" + variant], ref_game(variant, L, W, moves, loose, rewards, 0.1, 0.2, 0.3), variant)
        sp.prove(len(fwd) > L, "game %s: only %d states reachable on a %dx%d board" % (variant, len(fwd), L, W))
