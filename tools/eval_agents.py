#!/usr/bin/env python3
"""Evaluate sub-agent mutants under /tmp/mut/Cxx_out: validate (tests pass, demo fails with / passes without), then run the
target property's quick check (and optionally others). usage: eval_agents.py C03 [C05 ...] [--all-props]"""
import glob, json, os, subprocess, sys
V = os.path.dirname(os.path.dirname(os.path.abspath(__file__)))
RELATED = {"C01": "C01,C06,C04", "C02": "C02,C14,C05", "C03": "C03,C02", "C04": "C04,C10,C12", "C05": "C05,C10,C02", "C06": "C06,C02,C03",
           "C07": "C07,C01", "C08": "C08,C11", "C09": "C09,C12", "C10": "C10,C12", "C11": "C11,C08,C15", "C12": "C12", "C13": "C13,C02,C03",
           "C14": "C14,C02", "C15": "C15,C17", "C16": "C16", "C17": "C17,C15"}
def main():
    allp = "--all-props" in sys.argv
    for pid in [a for a in sys.argv[1:] if not a.startswith("--")]:
        for diff in sorted(glob.glob(os.environ.get("MUT_DIR", "/tmp/mut") + "/%s_out/m*.diff" % pid)):
            k = os.path.basename(diff)[:-5]
            demo = diff[:-5] + "_demo.py"
            props = RELATED[pid] if not allp else ""
            cmd = "python3 %s/tools/try_patch.py %s --demo %s %s" % (V, diff, demo, ("--props " + props) if props else "")
            r = subprocess.run(cmd, shell=True, capture_output=True, text=True)
            try:
                out = json.loads(r.stdout[r.stdout.index("{"):])
                valid = out.get("demo_unpatched") == 0 and out.get("demo_patched") not in (0, None) and out["tests"].startswith("57 passed")
                print("%s/%s valid=%s tests=%s demo=%s/%s caught_by=%s | %s" % (
                    pid, k, valid, out["tests"][:10], out.get("demo_unpatched"), out.get("demo_patched"), ",".join(out["caught_by"]) or "-",
                    " ".join("%s:%s" % (p, d.get("exit")) for p, d in out["props"].items())), flush=True)
                for p, d in out["props"].items():
                    if d.get("exit") == 2:
                        print("      %s inconclusive: %s" % (p, str(d.get("inconclusive"))[:300]), flush=True)
                    if d.get("exit") == 1 and p == pid:
                        print("      %s: %s" % (p, d.get("first", "")[:200]), flush=True)
            except Exception as e:
                print("%s/%s ERROR %s %s" % (pid, k, e, (r.stdout + r.stderr)[-400:]), flush=True)


if __name__ == "__main__":
    main()
