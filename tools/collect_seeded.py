#!/usr/bin/env python3
"""Copy validated sub-agent changes from /tmp/mut/Cxx_out into /verif/seeded/<id>/ and record which checks catch them.
usage: collect_seeded.py [Cxx ...]"""
import glob, json, os, shutil, subprocess, sys
V = os.path.dirname(os.path.dirname(os.path.abspath(__file__)))
sys.path.insert(0, os.path.join(V, "tools"))
from eval_agents import RELATED   # noqa

props = [a for a in sys.argv[1:]] or sorted(RELATED)
for pid in props:
    for diff in sorted(glob.glob(os.environ.get("MUT_DIR", "/tmp/mut") + "/%s_out/m*.diff" % pid)):
        k = os.path.basename(diff)[:-5]
        sid = "%s-%s%s" % (pid, os.environ.get("MUT_TAG", ""), k)
        demo = diff[:-5] + "_demo.py"
        txt = diff[:-5] + ".txt"
        rel = RELATED[pid]
        r = subprocess.run("python3 %s/tools/try_patch.py %s --demo %s --props %s" % (V, diff, demo, rel), shell=True, capture_output=True, text=True)
        try:
            out = json.loads(r.stdout[r.stdout.index("{"):])
        except Exception as e:
            print(sid, "ERROR", (r.stdout + r.stderr)[-300:], flush=True)
            continue
        valid = out.get("demo_unpatched") == 0 and out.get("demo_patched") not in (0, None) and out["tests"].startswith("57 passed")
        if not valid:
            print(sid, "INVALID (not kept)", out.get("tests"), out.get("demo_unpatched"), out.get("demo_patched"), flush=True)
            continue
        d = os.path.join(V, "seeded", sid)
        os.makedirs(d, exist_ok=True)
        shutil.copy(diff, os.path.join(d, "patch.diff"))
        shutil.copy(demo, os.path.join(d, "demo.py"))
        needs = open(txt).read().strip() if os.path.exists(txt) else ""
        meta = dict(id=sid, breaks_property=pid, source="independent sub-agent given only the property text and a scratch worktree",
                    needs_to_manifest=needs,
                    validated=dict(tests_with_change=out["tests"], demo_exit_unpatched=out.get("demo_unpatched"), demo_exit_patched=out.get("demo_patched")),
                    ran=["git worktree add <scratch> HEAD; git -C <scratch> apply patch.diff",
                         "cd <scratch> && /venv/bin/python -m pytest -q -p no:cacheprovider",
                         "/venv/bin/python demo.py <scratch>   (and against the unmodified tree)",
                         "VERIF_REPO=<scratch> python3-vt check.py <P> --tier quick   for P in " + rel],
                    checks={p: dict(exit=v.get("exit"), violations=v.get("violations"), first=v.get("first", "")[:300], wall_s=v.get("s"))
                            for p, v in out["props"].items()},
                    caught_by=out["caught_by"])
        json.dump(meta, open(os.path.join(d, "meta.json"), "w"), indent=1)
        print(sid, "caught_by=%s" % ",".join(out["caught_by"]) if out["caught_by"] else sid + " MISSED", flush=True)
