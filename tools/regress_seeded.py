#!/usr/bin/env python3
"""Regression over the stored seeded changes: each must still be flagged by at least one of the checks recorded in its
meta.json (quick tier, evaluated on a scratch worktree). usage: regress_seeded.py [-j N] [ids...]"""
import concurrent.futures, glob, json, os, subprocess, sys
V = os.path.dirname(os.path.dirname(os.path.abspath(__file__)))
args = sys.argv[1:]
j = 2
if "-j" in args:
    i = args.index("-j"); j = int(args[i + 1]); del args[i:i + 2]
ids = args or [os.path.basename(d) for d in sorted(glob.glob(os.path.join(V, "seeded", "*"))) if os.path.isdir(d)]


def one(sid):
    d = os.path.join(V, "seeded", sid)
    meta = json.load(open(os.path.join(d, "meta.json")))
    props = meta.get("caught_by") or list(meta["checks"].keys())
    still = []
    for p in props:      # stop at the first check that still flags it
        r = subprocess.run("python3 %s/tools/try_patch.py %s/patch.diff --props %s --no-tests" % (V, d, p), shell=True, capture_output=True, text=True,
                           env=dict(os.environ, VERIF_PROCS="8"))
        try:
            out = json.loads(r.stdout[r.stdout.index("{"):])
        except Exception:
            return sid, None, (r.stdout + r.stderr)[-200:]
        if out["caught_by"]:
            still = out["caught_by"]
            break
    return sid, still, props


with concurrent.futures.ThreadPoolExecutor(j) as ex:
    bad = 0
    for sid, still, props in ex.map(one, ids):
        if still is None:
            print(sid, "ERROR", props, flush=True); bad += 1
        elif not still:
            print(sid, "REGRESSION: no longer flagged by", props, flush=True); bad += 1
        else:
            print(sid, "ok", ",".join(still), flush=True)
print("done:", len(ids), "changes,", bad, "problems")
