#!/usr/bin/env python3
"""Seeded single-site mutants (DESIGN section 8): each is applied to a scratch worktree, the repository's tests
are run, then the quick checks listed for it. Prints one line per mutant."""
import json, os, subprocess, sys, tempfile

V = os.path.dirname(os.path.dirname(os.path.abspath(__file__)))
M = [
 # name, file, old, new, props
 ("p1_reach_ge", "tad.py", "            if next_state_reach_prob > max_reach_prob:", "            if next_state_reach_prob >= max_reach_prob + 1:", "C01"),
 ("p1_reach_init1", "tad.py", "        max_reach_prob = 0\n", "        max_reach_prob = 1\n", "C01"),
 ("p2_reach_init0", "tad.py", "        min_reach_prob = 1\n        for next_state in self.next_states:", "        min_reach_prob = 0\n        for next_state in self.next_states:", "C01"),
 ("prob_reach_drop_p", "tad.py", "            value += _next_state.reach_probability * next_state[PROBABILITY]", "            value += _next_state.reach_probability", "C01"),
 ("reach_loop_ge", "tad.py", "                if current_diff > max_diff:\n                    max_diff = current_diff\n                logging.debug(f\"{state.idx} {state.reach_probability}\")", "                if current_diff > max_diff and max_diff == 0:\n                    max_diff = current_diff\n                logging.debug(f\"{state.idx} {state.reach_probability}\")", "C01"),
 ("reach_no_abs", "tad.py", "                current_diff = abs(reach_probability_next - state.reach_probability)", "                current_diff = state.reach_probability - reach_probability_next", "C01"),
 ("reach_seed_removed", "tad.py", "            state.expected_reach_min_rewards = state.reach_probability\n", "            pass\n", "C01,C14"),
 ("nosol_state1", "tad.py", "        if self.state_list[0].reach_probability == 0 and prune_states:", "        if self.state_list[-1].reach_probability == 0 and prune_states:", "C06,C01"),
 ("nosol_drop_prune", "tad.py", "        if self.state_list[0].reach_probability == 0 and prune_states:", "        if self.state_list[0].reach_probability == 0:", "C06"),
 ("rew_p1_gt", "tad.py", "            if next_state_exp_rewards >= max_rewards:", "            if next_state_exp_rewards > max_rewards:", "C02,C14"),
 ("rew_p2_lt", "tad.py", "            if next_state_exp_rewards <= min_rewards:", "            if next_state_exp_rewards < min_rewards:", "C02,C14"),
 ("rew_prob_no_reward", "tad.py", "        value = self.reward\n        expected_rewards_min_reach = self.reward", "        value = 0\n        expected_rewards_min_reach = self.reward", "C02"),
 ("rew_loop_drop_diff", "tad.py", "                current_diff = max(current_diff_expected_rew, current_diff_min_reach, current_diff_reach)", "                current_diff = max(current_diff_expected_rew, current_diff_reach)", "C14,C02"),
 ("rew_loop_drop_main", "tad.py", "                current_diff = max(current_diff_expected_rew, current_diff_min_reach, current_diff_reach)", "                current_diff = max(current_diff_min_reach, current_diff_reach)", "C02"),
 ("prune_ne0", "tad.py", "                 if state_list[_next_state[NEXT_STATE_IDX]].reach_probability != 0]\n        if len(alive)", "                 if state_list[_next_state[NEXT_STATE_IDX]].reach_probability > 0.5]\n        if len(alive)", "C03,C02"),
 ("prune_norm_wrong", "tad.py", "            (_next_state[PROBABILITY] / alive_probability, _next_state[NEXT_STATE_IDX])", "            (_next_state[PROBABILITY] / (1 + alive_probability) * 2, _next_state[NEXT_STATE_IDX])", "C03,C02"),
 ("prune_p1_keep_first", "tad.py", "        self.next_states = [\n            _next_state for _next_state in self.next_states\n            if state_list[_next_state[NEXT_STATE_IDX]].reach_probability != 0]", "        self.next_states = self.next_states[:1] + [\n            _next_state for _next_state in self.next_states[1:]\n            if state_list[_next_state[NEXT_STATE_IDX]].reach_probability != 0]", "C03"),
 ("prune_reach_notin", "tad.py", "            if action in best_strategies]", "            if action in best_strategies or len(best_strategies) > 2]", "C05,C03"),
 ("prune_states_p2_only", "tad.py", "                if state.player != PLAYER_1 and idx not in reachable_states:", "                if state.player == PLAYER_2 and idx not in reachable_states:", "C03"),
 ("prune_states_zero", "tad.py", "            reachable_states = [0]\n", "            reachable_states = []\n", "C03,C02,C06"),
 ("strat_reach_p1_ge", "tad.py", "            if next_state_reach_probability > max_probability:\n                max_probability = next_state_reach_probability\n                best_strategies = [action]", "            if next_state_reach_probability >= max_probability:\n                max_probability = next_state_reach_probability\n                best_strategies = [action]", "C04"),
 ("strat_reach_p2_noround", "tad.py", "            next_state_reach_probability = round(\n                state_list[next_state_idx].reach_probability, floor)\n            if next_state_reach_probability < min_reach_prob:", "            next_state_reach_probability = state_list[next_state_idx].reach_probability\n            if next_state_reach_probability < min_reach_prob:", "C04"),
 ("strat_rew_p2_first", "tad.py", "            elif next_state_expected_rewards == min_rewards:\n                worst_strategies.append(action)", "            elif next_state_expected_rewards == min_rewards and not worst_strategies:\n                worst_strategies.append(action)", "C05"),
 ("floor_off", "tad.py", "        self.floor = abs(math.floor(math.log(threshold, 10)))", "        self.floor = abs(math.floor(math.log(threshold, 10))) - 4", "C04"),
 ("skip_prune_reach", "tad.py", "        solver.prune_reachability(reachability_strategies)\n", "        pass\n", "C05,C02"),
 ("check_final_gt", "tad.py", "        if max(self.final_states) >= self.num_states or min(self.final_states) < 0:", "        if max(self.final_states) > self.num_states or min(self.final_states) < 0:", "C09"),
 ("check_reward_le", "tad.py", "        if min(self.rewards) < 0:", "        if min(self.rewards) < -1:", "C09"),
 ("check_succ_gt", "tad.py", "            if next_state[NEXT_STATE_IDX] < 0 or next_state[NEXT_STATE_IDX] >= self.num_states:", "            if next_state[NEXT_STATE_IDX] < -1 or next_state[NEXT_STATE_IDX] >= self.num_states:", "C09"),
 ("check_first_only", "tad.py", "            if len(next_state) != 2:\n                raise ValueError(\"Next states must be a list of tuples of length 2.\")", "            if len(next_state) < 2:\n                raise ValueError(\"Next states must be a list of tuples of length 2.\")", "C09"),
 ("node_alias_mutate", "tad.py", "        self.next_states = [\n            _next_state for _next_state in self.next_states\n            if state_list[_next_state[NEXT_STATE_IDX]].reach_probability != 0]", "        self.next_states[:] = [\n            _next_state for _next_state in self.next_states\n            if state_list[_next_state[NEXT_STATE_IDX]].reach_probability != 0]", "C10"),
 ("rdfs_no_sort", "reverse_dfs.py", "    states_reaching_final.sort()\n", "", "C07"),
 ("rdfs_keep_finals", "reverse_dfs.py", "    states_reaching_final = [state for state in states_reaching_final if state not in final_states]", "    states_reaching_final = [state for state in states_reaching_final if state != final_states[0]]", "C07"),
 ("rdfs_missing_off", "reverse_dfs.py", "    for state in range(number_of_states):", "    for state in range(1, number_of_states):", "C07"),
 ("gen_down_plus1", "roberta_generator.py", "                transition.append((\"Down\", offset + i * width + j + width))", "                transition.append((\"Down\", offset + i * width + j + 1))", "C08"),
 ("gen_right_break_wrap", "roberta_generator.py", "            if j == width - 1:\n                transition.append((1 - prob_robot_break, offset + i * width))", "            if j == width - 1:\n                transition.append((1 - prob_robot_break, offset))", "C08"),
 ("gen_tile_prob_swap", "roberta_generator.py", "                transition.append((prob_tile_break, loosing_state))\n                transition.append((1 - prob_tile_break, offset + i * width + j))", "                transition.append((1 - prob_tile_break, loosing_state))\n                transition.append((prob_tile_break, offset + i * width + j))", "C08"),
 ("gen_c_light_groups", "roberta_generator.py", "        length, width, prob_light_break, offset_ok=(robot_left_right*n_tiles),\n        offset_break=(robot_down_left_right*n_tiles))", "        length, width, prob_light_break, offset_ok=(robot_down*n_tiles),\n        offset_break=(robot_down_left_right*n_tiles))", "C08"),
 ("gen_check_width", "roberta_generator.py", "    if width <= 0:", "    if width < 0:", "C15"),
 ("gen_check_prob", "roberta_generator.py", "    if prob_tile_break <= 0 or prob_tile_break >= 1:", "    if prob_tile_break < 0 or prob_tile_break >= 1:", "C15"),
 ("gen_no_seed", "roberta_generator.py", "    random.seed(seed)\n", "    pass\n", "C15"),
 ("gen_loose_gt", "roberta_generator.py", "            loose_tiles[i].append(1 if random.random() < prob_loose_tile else 0)", "            loose_tiles[i].append(1 if random.random() > prob_loose_tile else 0)", "C15"),
 ("gen_reward_range", "roberta_generator.py", "                    1.0/2.0**(max_reward+1) +\n                    random.random()*(1.0-1.0/2.0**(max_reward+1)))/math.log(2.0)))", "                    1.0/2.0**(max_reward+2) +\n                    random.random()*(1.0-1.0/2.0**(max_reward+2)))/math.log(2.0)))", "C15"),
 ("gen_name_swap", "roberta_generator.py", "                \"w\" + str(width) + \"_\" + \\\n                \"l\" + str(length) + \"_\" + \\\n                \"r\" + str(max_reward) + \"_\" + \\\n                \"rb\" + prob_to_str(prob_robot_break)", "                \"w\" + str(length) + \"_\" + \\\n                \"l\" + str(width) + \"_\" + \\\n                \"r\" + str(max_reward) + \"_\" + \\\n                \"rb\" + prob_to_str(prob_robot_break)", "C17"),
 ("gen_main_args_swap", "roberta_generator.py", "    write_robots(file_name, length, width, moves, rewards, loose_tiles, prob_tile_break,\n                 prob_robot_break, prob_light_break)\n\n\nif __name__", "    write_robots(file_name, length, width, moves, rewards, loose_tiles, prob_tile_break,\n                 prob_light_break, prob_robot_break)\n\n\nif __name__", "C15"),
 ("cr_no_deepcopy", "conditionalrewards.py", "            game_copy = copy.deepcopy(game)", "            game_copy = game", "C12"),
 ("cr_flag_hoisted", "conditionalrewards.py", "    for name, game in games_dict.items():\n        prev_game_had_solution = True", "    prev_game_had_solution = True\n    for name, game in games_dict.items():", "C12"),
 ("cr_swap_fields", "conditionalrewards.py", "                \"rew_min_reach\": rewards_min_reach,\n                \"probabilities\": probabilities,\n                \"prob_min_rew\": reach_min_rewards", "                \"rew_min_reach\": reach_min_rewards,\n                \"probabilities\": probabilities,\n                \"prob_min_rew\": rewards_min_reach", "C12"),
 ("cr_report_swap", "conditionalrewards.py", "            file.write(f\"Rewards                 : {game['rewards']}\\n\")", "            file.write(f\"Rewards                 : {game['rew_min_reach']}\\n\")", "C16"),
 ("cr_report_stem", "conditionalrewards.py", "    file_name = file_name.split(\"/\")[-1].split(\".\")[0]", "    file_name = file_name.split(\"/\")[-1].rsplit(\".\", 1)[0]", "C16"),
 ("cr_save_always", "conditionalrewards.py", "    if parsed_args.save_results:\n        save_results_to_file", "    if parsed_args.save_results or True:\n        save_results_to_file", "C16"),
]


def main():
    only = sys.argv[1:] 
    res = []
    for name, fn, old, new, props in M:
        if only and name not in only:
            continue
        src = open(os.path.join("/repo", fn)).read()
        if src.count(old) != 1:
            print("%-24s SKIP: pattern occurs %d times" % (name, src.count(old)), flush=True)
            continue
        wt = tempfile.mkdtemp(prefix="mutsrc_", dir="/tmp")
        os.rmdir(wt)
        subprocess.run("git -C /repo worktree add -q --detach %s HEAD" % wt, shell=True, check=True)
        try:
            open(os.path.join(wt, fn), "w").write(src.replace(old, new))
            diff = subprocess.run("git -C %s diff" % wt, shell=True, capture_output=True, text=True).stdout
            pf = os.path.join("/tmp", "mut_%s.diff" % name)
            open(pf, "w").write(diff)
        finally:
            subprocess.run("git -C /repo worktree remove --force %s" % wt, shell=True)
        r = subprocess.run("python3 %s/tools/try_patch.py %s --props %s" % (V, pf, props), shell=True, capture_output=True, text=True)
        try:
            out = json.loads(r.stdout[r.stdout.index("{"):])
            line = "%-24s tests=%-18s caught_by=%-14s %s" % (name, out["tests"], ",".join(out["caught_by"]) or "-",
                                                      " ".join("%s:%s" % (p, d.get("exit")) for p, d in out["props"].items()))
            if not out["caught_by"]:
                line += "   <<< MISSED " + "; ".join(str(d.get("inconclusive")) for d in out["props"].values())[:200]
        except Exception as e:
            line = "%-24s ERROR %s %s" % (name, e, r.stdout[-300:] + r.stderr[-300:])
        print(line, flush=True)
        os.remove(pf)


if __name__ == "__main__":
    main()
