#!/usr/bin/env python3
"""Apply a patch to a scratch worktree of /repo (outside /repo and /verif), run the repository's tests and
the quick checks against it, report which checks flag it, remove the worktree.

usage: try_patch.py <patch.diff> [--props C01,C02] [--demo demo.py] [--tier quick] [--keep]"""
import argparse, json, os, re, shutil, subprocess, sys, tempfile, time

V = os.path.dirname(os.path.dirname(os.path.abspath(__file__)))


def sh(cmd, **kw):
    return subprocess.run(cmd, shell=True, capture_output=True, text=True, **kw)


def main():
    ap = argparse.ArgumentParser()
    ap.add_argument("patch")
    ap.add_argument("--props", default="")
    ap.add_argument("--demo", default=None)
    ap.add_argument("--tier", default="quick")
    ap.add_argument("--no-tests", action="store_true")
    a = ap.parse_args()
    props = [p for p in a.props.split(",") if p] or [json.loads(l)["id"] for l in open(os.path.join(V, "properties.jsonl"))]
    wt = tempfile.mkdtemp(prefix="mutrun_", dir="/tmp")
    os.rmdir(wt)
    base = "HEAD"
    mj = os.path.join(os.path.dirname(os.path.abspath(a.patch)), "meta.json")
    if os.path.exists(mj):
        b = json.load(open(mj)).get("base_commit", "")
        if b and " " not in b:
            base = b            # a patch recorded against an earlier commit of /repo
    r = sh("git -C /repo worktree add -q --detach %s %s" % (wt, base))
    assert r.returncode == 0, r.stderr
    ev = tempfile.mkdtemp(prefix="mutev_", dir="/tmp")
    out = dict(patch=a.patch, props={}, tests=None, demo=None)
    try:
        if a.demo:
            r = sh("/venv/bin/python %s %s" % (a.demo, wt), timeout=300)
            out["demo_unpatched"] = r.returncode
        r = sh("git -C %s apply %s" % (wt, os.path.abspath(a.patch)))
        if r.returncode != 0:
            print("PATCH DOES NOT APPLY:", r.stderr)
            return 3
        if not a.no_tests:
            r = sh("cd %s && /venv/bin/python -m pytest -q -p no:cacheprovider -x 2>&1 | tail -1" % wt, timeout=900)
            out["tests"] = r.stdout.strip()
        if a.demo:
            r = sh("/venv/bin/python %s %s" % (a.demo, wt), timeout=300)
            out["demo_patched"] = r.returncode
        for p in props:
            t0 = time.time()
            env = dict(os.environ, VERIF_REPO=wt, VERIF_EVIDENCE_DIR=ev, VERIF_TIER=a.tier, VERIF_MAX_JOB_S=os.environ.get("VERIF_MAX_JOB_S", "240"))
            try:
                r = subprocess.run("cd %s && timeout 1800 python3-vt check.py %s --tier %s" % (V, p, a.tier), shell=True, capture_output=True, text=True, env=env, timeout=2000)
                nv = len(re.findall(r"^VIOLATION property=", r.stdout, re.M))
                first = ""
                m = re.search(r"^  (\S+ .*)$", r.stderr, re.M)
                if m:
                    first = m.group(1)[:260]
                inc = re.findall(r"^INCONCLUSIVE: (.*)$", r.stdout, re.M)
                out["props"][p] = dict(exit=r.returncode, violations=nv, first=first, inconclusive=inc[:2], s=round(time.time() - t0, 1))
            except subprocess.TimeoutExpired:
                out["props"][p] = dict(exit="timeout")
    finally:
        sh("git -C /repo worktree remove --force %s" % wt)
        shutil.rmtree(ev, ignore_errors=True)
    caught = [p for p, d in out["props"].items() if d.get("exit") == 1]
    out["caught_by"] = caught
    print(json.dumps(out, indent=1))
    return 0 if caught else 1


if __name__ == "__main__":
    sys.exit(main())
