#!/usr/bin/env python3
"""Writes seeded/INDEX.md from seeded/*/meta.json"""
import glob, json, os
V = os.path.dirname(os.path.dirname(os.path.abspath(__file__)))
rows = []
for f in sorted(glob.glob(os.path.join(V, "seeded", "*", "meta.json"))):
    m = json.load(open(f))
    needs = " ".join(m.get("needs_to_manifest", "").split())
    rows.append("| %s | %s | %s | %s |" % (m["id"], m["breaks_property"], ", ".join(m["caught_by"]) or "-", needs[:260].replace("|", "/")))
with open(os.path.join(V, "seeded", "INDEX.md"), "w") as f:
    f.write("# Seeded changes\n\nEach directory holds `patch.diff` (apply with `git -C /repo apply`), `demo.py` (run as "
            "`/venv/bin/python demo.py <repo dir>`: exit 0 without the change, 1 with it) and `meta.json` (what it needs to manifest, "
            "what was run, per-check result). `Cxx-mK` / `Cxx-r2mK`: written by independent sub-agents given only the text of property "
            "Cxx (first / second round); `F*`: the defects of the pinned tree (reverse of the `fix:` commits).\n\n"
            "| id | written against | flagged by (quick tier) | what it needs to manifest |\n|---|---|---|---|\n" + "\n".join(rows) + "\n")
print(len(rows), "entries")
