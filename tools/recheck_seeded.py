#!/usr/bin/env python3
"""Re-run checks against seeded changes already stored under /verif/seeded and refresh meta.json.
usage: recheck_seeded.py <id> [--props C01,C02]   |   recheck_seeded.py --all"""
import glob, json, os, subprocess, sys
V = os.path.dirname(os.path.dirname(os.path.abspath(__file__)))
args = sys.argv[1:]
props = None
if "--props" in args:
    i = args.index("--props")
    props = args[i + 1]
    del args[i:i + 2]
ids = [os.path.basename(d) for d in sorted(glob.glob(os.path.join(V, "seeded", "*"))) if os.path.isdir(d)] if "--all" in args else args
for sid in ids:
    d = os.path.join(V, "seeded", sid)
    meta = json.load(open(os.path.join(d, "meta.json")))
    pl = props or ",".join(meta["checks"].keys())
    r = subprocess.run("python3 %s/tools/try_patch.py %s/patch.diff --demo %s/demo.py --props %s" % (V, d, d, pl), shell=True, capture_output=True, text=True)
    out = json.loads(r.stdout[r.stdout.index("{"):])
    for p, v in out["props"].items():
        meta["checks"][p] = dict(exit=v.get("exit"), violations=v.get("violations"), first=v.get("first", "")[:300], wall_s=v.get("s"))
    meta["caught_by"] = sorted(p for p, v in meta["checks"].items() if v.get("exit") == 1)
    meta["validated"] = dict(tests_with_change=out["tests"], demo_exit_unpatched=out.get("demo_unpatched"), demo_exit_patched=out.get("demo_patched"))
    json.dump(meta, open(os.path.join(d, "meta.json"), "w"), indent=1)
    print(sid, "caught_by=%s" % ",".join(meta["caught_by"]), flush=True)
