#!/usr/bin/env python3
"""Regenerates MANIFEST.json from the table below (kept in one place so that the
manifest is always valid and current)."""
import json, os
V = os.path.dirname(os.path.dirname(os.path.abspath(__file__)))

TB = ("z3 5.1.0 (python3-vt wheel); the proxy engine /verif/symex (terms built by operator overloading; validated by "
      "`check.py selftest`: engine-vs-native differential on the repository's fixtures, seeded defects); CPython 3.11 "
      "executing the repository's unmodified functions; floats modelled as exact reals unless stated (FP mode: IEEE "
      "binary64 via z3 FloatingPoint)")

SE = "bounded symbolic execution of the real Python functions over z3 (proxy values, path exploration, solver-decided assertions, native replay)"

CHECKS = {
 # id: (design_ref, technique, text, note)
 "C01": ("DESIGN.md 4/C01", SE + "; per-node lemmas + last-sweep loop post-condition; template runs vs exact Fraction oracle",
         "Real value_iteration_reach of each node kind for ALL successor values/probabilities (out-degree<=4): max/min/sum, stays "
         "below any fixed point it started below; real Solver.value_iteration_reachability run for its last sweep from an ARBITRARY "
         "pre-state (n<=3): residual<=threshold on return, unlisted/final states untouched, seeding, 'no solution' iff pruning and "
         "value 0. Reachability phase on acyclic templates with ALL probabilities symbolic: reported values equal the backward-"
         "induction values exactly. Whole solve() on template families vs exact max-min values (concrete doubles, Fraction oracle).",
         TB + "; convergence closeness only on the template grid (KF-1: stopping rule unsound on slowly mixing chains); "
              "non-expansiveness paper step links last-sweep change to residual"),
 "C02": ("DESIGN.md 4/C02", SE + "; node lemmas, loop post-condition, whole solve() with ALL rewards symbolic vs SMT Bellman oracle",
         "Real value_iteration_rewards per node kind (all values), last sweep of value_iteration_total_rewards from an arbitrary "
         "pre-state, and the whole real solve() on stopping template families with every reward a solver variable: reported rewards "
         "equal the unique solution of the reference-conditioned game's max-min equations within 4e-5, for all reward vectors at once; "
         "on the dead-successor family also with the root's distribution symbolic (renormalisation right for every distribution).",
         TB + "; probabilities concrete (grid); rewards in {0} u [1/8,4]; reference conditioning written from the statement"),
 "C03": ("DESIGN.md 4/C03", SE + "; per-node conditioning lemma (all values, out-degree<=4) and prune_states on all small skeletons",
         "Real Solver.prune_reachability / prune_stochastich_game / prune_states: one arbitrary Player 1 or probabilistic node in an "
         "arbitrary game (all arrangements of 0..K dead successors, all probabilities and values as solver variables, K<=4), and "
         "prune_states on every skeleton with <=4 states; whole solve() with a symbolic distribution at the root: the root's reward is the "
         "mass-renormalised average of the surviving successors; every obligation decided by z3, counterexamples replayed natively.",
         TB + "; locality of pruning enforced by the harness; out-degree > 4 outside"),
 "C04": ("DESIGN.md 4/C04", SE + "; strategy-extraction lemmas for all values and digit counts; template runs vs exact arg-max sets",
         "Real get_best/worst_strategies_reachability for all successor values (K<=4, digits 1..9): exactly the actions with extremal "
         "rounded value, in order; equals the exact arg-max/arg-min set when values are equal or >10^-d apart; strategy table; "
         "whole solve() on templates incl. float-sum ties vs exact optimal action sets, identical with pruning on/off.",
         TB + "; round(x,d) modelled as a monotone function within half a unit of x fixing 0 and 1 (weaker than the real function)"),
 "C05": ("DESIGN.md 4/C05", SE + "; extraction lemmas, inclusion lemma on the conditioning harness, whole solve() vs SMT reward oracle",
         "Final-strategy extraction lemmas (all values); inclusion final<=reachability for an arbitrary Player 1 node after the real "
         "conditioning; whole solve() with symbolic rewards: final strategies are exactly the permitted reward-optimal actions under "
         "the quantifier's side condition (acyclic: arbitrary ties; cyclic: both 0 or separated).", TB + "; as C02"),
 "C06": ("DESIGN.md 4/C06", SE + "; undeclared-exception detection on every path; sweep budget via logging stub; loop post-conditions",
         "Every pipeline path either returns the complete 8-tuple or raises 'no solution' exactly when pruning is on and the exact value "
         "of the initial state is 0; any other exception on any path is a violation; value iteration must stop within a sweep budget "
         "on all template instances for all rewards.", TB + "; termination is bounded (templates, sweep budget), not proved in general"),
 "C07": ("DESIGN.md 4/C07", "symbolic successor / final indices case-split by z3 through the code's own dictionary lookups (n<=3); bounded-exhaustive "
         "enumeration of all graphs n<=3 (thorough n<=4); concrete depth / width / density sentinels",
         "Real reverse_dfs / reverse_transition_list with every successor index and final state a solver variable in 0..n-1 (n<=2, thorough "
         "n<=3): the search's dictionary lookups force the case split and z3 proposes every feasible value; additionally EVERY graph with "
         "n<=3 (thorough n<=4) states, bounded out-degree and every final list is enumerated against an independent fixed point (the "
         "search's control flow is the graph, so beyond the case split nothing symbolic survives); deep / wide / dense graphs are concrete sentinels.",
         TB + "; sizes beyond the bound covered by sentinels only"),
 "C08": ("DESIGN.md 4/C08", SE + "; havoc-range per-tile lemmas for boards of unbounded size",
         "Each of the nine transition builders run once for an ARBITRARY tile of a board of ANY length/width (havoc range): emitted "
         "transitions equal the reference Roborta rules (labels, targets incl. wrap-around and last-row-wins, probabilities).",
         TB + "; independence of loop iterations checked structurally on the AST; layout/composition checked on bounded boards"),
 "C14": ("DESIGN.md 4/C14", SE + "; diagnostic-component lemmas; whole solve() vs SMT linear systems under the no-tie side condition",
         "Real diagnostic components per node kind (all values) and whole solve() with symbolic rewards: the two diagnostic vectors equal "
         "the solutions of the linear systems defined by the reported strategies, wherever successor rewards are separated.", TB + "; as C02"),
 "C15": ("DESIGN.md 4/C15", SE + "; exact integers and IEEE doubles (z3 FloatingPoint) for the probabilities; recorder stubs for main()",
         "Real check_input and main(): for ALL integers and ALL doubles incl. NaN/inf, invalid parameter sets end in ValueError before "
         "anything is generated or written; valid ones reach the board generator and writer with exactly the requested values.",
         TB + "; argparse's own parsing trusted; random board contents: see harness list"),
 "C17": ("DESIGN.md 4/C17", SE + " in IEEE mode (z3 Float64) for prob_to_str; token-level symbolic strings for the name assembly",
         "Real prob_to_str on fl(k/100) for every integral k in 1..99 renders k; different whole percents render differently; real main() "
         "and create_sg_from_board assemble the name from exactly the right fields; every number is followed by a non-digit literal.",
         TB + "; step from token sequences to strings (unique decodability) is a paper lemma"),
}


CHECKS.update({
 "C09": ("DESIGN.md 4/C09", SE + "; one symbolic corruption (rule x position x bad value) per path on well-formed base games",
         "Real solve() on a description with one documented well-formedness rule broken at a case-split position: out-of-range "
         "indices and negative rewards are unconstrained solver variables (so n, -1 and everything beyond are decided by z3), wrong "
         "types from a menu; ValueError and nothing else on every path; run_games records the message.",
         TB + "; only the documented rules (NaN / non-numeric rewards / probabilities not summing to 1 are outside)"),
 "C10": ("DESIGN.md 4/C10", SE + "; schedules of 2-3 solves on one description, snapshot comparison, solver equality of results",
         "Real solve() called repeatedly (same object / fresh object x pruned / unpruned, every schedule) on every stopping template: "
         "the caller's description is unchanged after every solve and solves with the same pruning flag return identical results "
         "(symbolic rewards compared by the solver).", TB + "; template games, schedules of length <= 3"),
 "C11": ("DESIGN.md 4/C11", SE + "; real writer -> text -> real reader round trip with symbolic contents; per-tile lemmas; main() harness",
         "Real write_robots output read back with the real read_dict_from_file for every board with <=4 tiles (all layouts, symbolic "
         "rewards and probabilities): exactly game_a/b/c, each accepted by check_game/init_states, every state has a transition, chance "
         "probabilities positive and summing to 1, single absorbing winning final state, absorbing losing state; per-tile lemmas give the "
         "same for boards of any size; main() shows exactly the documented parameter ranges reach the writer.",
         TB + "; 'each game is then solved or reported unsolvable' only as a concrete sentinel on boards <=3 tiles"),
 "C12": ("DESIGN.md 4/C12", SE + "; real run_games on menus of solvable / no-solution / malformed games in every order vs solving alone",
         "Real run_games on dictionaries of 1-3 games (symbolic rewards, symbolic bad values) in every order: entries in run order, "
         "results equal to solving each game alone (solver equality), failing game reported with its message, unpruned entry 'Game not "
         "solved', other games unaffected, caller's dictionaries unchanged.", TB + "; menu of 6 games; total_time not compared"),
 "C13": ("DESIGN.md 4/C13", SE + "; a description and its re-presentation (state permutation, transition order, action renaming) solved in one path",
         "Real solve() on template instances and their re-presentations: same solvable/no-solution outcome; probabilities and rewards "
         "agree up to renumbering within tolerance (solver query over symbolic rewards); strategies agree up to renaming where the "
         "oracle's competing values are equal/separated or (acyclic templates) each lies well inside a 6-digit rounding cell.", TB + "; template games; seeded permutations beyond reversal/rotation"),
 "C16": ("DESIGN.md 4/C16", "parametric symbolic execution of the real report writer on opaque tokens (solver only splits the equality flag); reader/main on menus",
         "Real save_results_to_file executed on result dictionaries whose values are opaque tokens: file name outputs/<stem>.txt, one "
         "block per entry in order, 14 labelled lines each carrying exactly the token stored under its key, equality line = truth value of "
         "the comparison on both branches; real reader and main() on menus of contents/arguments; concrete literal round-trip sentinel.",
         TB + "; parametricity argument; repr/eval round trip of Python literals trusted (sentinel only)"),
})
LEVEL = {"C16": "other", "C07": "model_checking"}

NA = {}

def main():
    props = [json.loads(l)["id"] for l in open(os.path.join(V, "properties.jsonl"))]
    checks = []
    for pid in props:
        if pid in CHECKS:
            ref, tech, text, note = CHECKS[pid]
            checks.append(dict(
                property_id=pid,
                quick_cmd="python3-vt check.py %s --tier quick" % pid,
                thorough_cmd="python3-vt check.py %s --tier thorough" % pid,
                evidence_file="evidence/%s.json" % pid,
                replay_cmd_template="python3-vt check.py replay {path}",
                engine="symex",
                level_claimed=dict(category=LEVEL.get(pid, "model_checking"), text=text, design_ref=ref),
                level_note=note, technique=tech))
    na = [dict(property_id=p, reason=NA.get(p, "check not built yet (work in progress); see DESIGN.md section 4 for the planned harness"))
          for p in props if p not in CHECKS]
    m = dict(
        version=1,
        setup_cmd="python3-vt -m compileall -q symex checks check.py && python3-vt check.py selftest",
        hooks=dict(guard="CONDITIONALREWARDS_VERIF",
                   enable="none needed: checks load /repo's sources into fresh namespaces; environment stubs are injected as module globals",
                   baseline_off_cmd="cd /repo && /venv/bin/python -m pytest -ra -q -p no:cacheprovider --timeout=900 --continue-on-collection-errors",
                   source_commits=[], add_only=True),   # no hook commits: stubs are injected as module globals at load time
        engines=[dict(name="symex", path="symex/", serves_properties=sorted(CHECKS),
                      kind_free_text="proxy-based symbolic executor for Python over z3: real functions of /repo run on "
                                     "values carrying z3 terms; path exploration by re-execution; every assertion decided by z3; "
                                     "counterexamples replayed natively")],
        checks=checks,
        notes="Exit codes: 0 holds within bounds; 1 natively reproduced violation (VIOLATION line); 2 inconclusive/harness error. "
              "Known findings (KF-1, KF-2a-f, KF-3) in known_findings.json; fix commits ffbc1d8, 40a4ab5, aa12cad, ae4ce9f, c36e3df in /repo. "
              "Quick tier: 1-40 s per property (about 4.5 min for all 17); thorough tier: 1 s - 13 min per property (about 85 min for all). "
              "Harnesses labelled CONCRETE / SENTINEL in the evidence are concrete executions, not solver verdicts. See DESIGN.md section 10.",
        not_applicable=na)
    with open(os.path.join(V, "MANIFEST.json"), "w") as f:
        json.dump(m, f, indent=1)
    print("MANIFEST.json: %d checks, %d not_applicable" % (len(checks), len(na)))

if __name__ == "__main__":
    main()
