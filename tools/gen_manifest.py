#!/usr/bin/env python3
"""Regenerates MANIFEST.json from the table below (kept in one place so that the
manifest is always valid and current)."""
import json, os
V = os.path.dirname(os.path.dirname(os.path.abspath(__file__)))

TB = ("z3 5.1.0 (python3-vt wheel); the proxy engine /verif/symex (terms built by operator overloading; validated by "
      "`check.py selftest`: engine-vs-native differential on the repository's fixtures, seeded defects); CPython 3.11 "
      "executing the repository's unmodified functions; floats modelled as exact reals unless stated (FP mode: IEEE "
      "binary64 via z3 FloatingPoint)")

CHECKS = {
 # id: (design_ref, technique, text, note)
 "C03": ("DESIGN.md 4/C03",
         "bounded symbolic execution of the real pruning functions over z3 (per-node lemma, all values, out-degree<=4)",
         "Bounded symbolic execution of the real Solver.prune_reachability / prune_stochastich_game / prune_states: "
         "one arbitrary Player 1 or probabilistic node in an arbitrary game (all arrangements of 0..K dead successors, "
         "all probabilities and values as solver variables, K<=4), and prune_states on every skeleton with <=4 states; "
         "the solver discharges every obligation on every path or returns a counterexample that is replayed natively.",
         TB + "; locality of pruning (a node reads only its successors) enforced by the harness; out-degree > 4 outside"),
}

NA = {}

def main():
    props = [json.loads(l)["id"] for l in open(os.path.join(V, "properties.jsonl"))]
    checks = []
    for pid in props:
        if pid in CHECKS:
            ref, tech, text, note = CHECKS[pid]
            checks.append(dict(
                property_id=pid,
                quick_cmd="python3-vt check.py %s --tier quick" % pid,
                thorough_cmd="python3-vt check.py %s --tier thorough" % pid,
                evidence_file="evidence/%s.json" % pid,
                replay_cmd_template="python3-vt check.py replay {path}",
                engine="symex",
                level_claimed=dict(category="model_checking", text=text, design_ref=ref),
                level_note=note, technique=tech))
    na = [dict(property_id=p, reason=NA.get(p, "check not built yet (work in progress); see DESIGN.md section 4 for the planned harness"))
          for p in props if p not in CHECKS]
    m = dict(
        version=1,
        setup_cmd="python3-vt -m compileall -q symex checks check.py && python3-vt check.py selftest",
        hooks=dict(guard="CONDITIONALREWARDS_VERIF",
                   enable="none needed: checks load /repo's sources into fresh namespaces; environment stubs are injected as module globals",
                   baseline_off_cmd="cd /repo && /venv/bin/python -m pytest -ra -q -p no:cacheprovider --timeout=900 --continue-on-collection-errors",
                   source_commits=[], add_only=True),
        engines=[dict(name="symex", path="symex/", serves_properties=sorted(CHECKS),
                      kind_free_text="proxy-based symbolic executor for Python over z3: real functions of /repo run on "
                                     "values carrying z3 terms; path exploration by re-execution; every assertion decided by z3; "
                                     "counterexamples replayed natively")],
        checks=checks,
        notes="Exit codes: 0 holds within bounds; 1 natively reproduced violation (VIOLATION line); 2 inconclusive/harness error. "
              "Known findings in known_findings.json. See DESIGN.md.",
        not_applicable=na)
    with open(os.path.join(V, "MANIFEST.json"), "w") as f:
        json.dump(m, f, indent=1)
    print("MANIFEST.json: %d checks, %d not_applicable" % (len(checks), len(na)))

if __name__ == "__main__":
    main()
